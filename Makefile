# Builds the simulator and the harnesses from /repo's current working tree (never links libfix8.so).
REPO ?= /repo
V := $(patsubst %/,%,$(dir $(abspath $(lastword $(MAKEFILE_LIST)))))
B ?= $(V)/build
FL ?= asan
O := $(B)/$(FL)
JOBS ?= 16

CXX := g++
CC := gcc
INC := -I$(REPO)/include -I$(REPO)/runtime -I$(B)/gen -I$(V)/sim -I$(V)/harness
DEFS := -DHAVE_CONFIG_H -DFIX8_VERIF
WARN := -w
FLAGS_asan  := -O1 -g1 -fsanitize=address,undefined -fno-sanitize=alignment,vptr -fno-sanitize-recover=undefined -fno-omit-frame-pointer -D_GLIBCXX_ASSERTIONS
FLAGS_tsan  := -O1 -g1 -fsanitize=thread -fno-omit-frame-pointer
FLAGS_plain := -O1 -g1 -D_GLIBCXX_ASSERTIONS
FLAGS_f8c   := -O0
CXXFLAGS := $(FLAGS_$(FL)) $(DEFS) $(INC) $(WARN) -MMD -MP -pthread
KFLAGS_asan := $(FLAGS_asan)
KFLAGS_tsan := -O1 -g1 -fno-omit-frame-pointer -DSIMK_FUTEX
KFLAGS_plain := $(FLAGS_plain)
LIBS := -lPocoNet -lPocoUtil -lPocoFoundation -lz -lpthread

WRAPS := pthread_create pthread_join pthread_spin_lock pthread_spin_trylock pthread_spin_unlock \
 pthread_mutex_lock pthread_mutex_trylock pthread_mutex_unlock sched_yield pthread_yield \
 clock_gettime clock_nanosleep nanosleep _ZNSt6chrono3_V212system_clock3nowEv \
 open open64 read write lseek lseek64 close access rename mkdir unlink \
 ftruncate ftruncate64 fsync fdatasync pread pread64 pwrite pwrite64 fstat fstat64 stat stat64
comma := ,
empty :=
space := $(empty) $(empty)
LDWRAP := -Wl,$(subst $(space),$(comma),$(addprefix --wrap=,$(WRAPS)))

RT_SRC := xml f8utils message traits session connection logger persist filepersist configuration gzstream
RT_OBJ := $(addprefix $(O)/rt/,$(addsuffix .o,$(RT_SRC))) $(O)/rt/modp_numtoa.o
GEN_OBJ := $(O)/gen/utest_types.o $(O)/gen/utest_traits.o $(O)/gen/utest_classes.o
SIM_OBJ := $(O)/sim/kernel.o $(O)/sim/simfs.o $(O)/sim/driver.o
HARNESSES := $(basename $(notdir $(wildcard $(V)/harness/c[0-9][0-9].cpp)))
BINS := $(addprefix $(O)/,$(HARNESSES))

.PHONY: build setup all clean gen
.SECONDARY:

setup: build
build: gen
	@$(MAKE) --no-print-directory -j$(JOBS) -C $(V) FL=$(FL) all
all: $(BINS)

# ---- schema compiler built from the working tree (plain, unoptimised), then the unit-test schema ----
F8C_RT := xml f8utils message traits session connection logger persist filepersist configuration gzstream consolemenu f8measure
F8C_OBJ := $(addprefix $(B)/f8c/rt/,$(addsuffix .o,$(F8C_RT))) $(B)/f8c/rt/modp_numtoa.o \
           $(B)/f8c/f8c.o $(B)/f8c/f8cutils.o $(B)/f8c/f8precomp.o
$(B)/f8c/rt/%.o: $(REPO)/runtime/%.cpp
	@mkdir -p $(@D); $(CXX) $(FLAGS_f8c) -DHAVE_CONFIG_H -I$(REPO)/include -I$(REPO)/runtime $(WARN) -MMD -MP -pthread -c $< -o $@
$(B)/f8c/rt/modp_numtoa.o: $(REPO)/runtime/modp_numtoa.c
	@mkdir -p $(@D); $(CC) -O0 -DHAVE_CONFIG_H -I$(REPO)/include -w -MMD -MP -c $< -o $@
$(B)/f8c/%.o: $(REPO)/compiler/%.cpp
	@mkdir -p $(@D); $(CXX) $(FLAGS_f8c) -DHAVE_CONFIG_H -I$(REPO)/include -I$(REPO)/compiler $(WARN) -MMD -MP -pthread -c $< -o $@
$(B)/f8c/f8c: $(F8C_OBJ)
	@$(CXX) -o $@ $^ -lPocoNet -lPocoUtil -lPocoJSON -lPocoFoundation -lz -lpthread -rdynamic
EXTRA_FIELDS := "<field number='9999' name='SampleUserField'  type='STRING' messages='NewOrderSingle:N ExecutionReport:N OrderCancelRequest:Y' /><field number='9991' name='SampleUserField2' type='STRING' messages='NewOrderSingle:N ExecutionReport:N OrderCancelRequest:Y' />"
$(B)/gen/stamp: $(B)/f8c/f8c $(REPO)/schema/FIX42UTEST.xml
	@mkdir -p $(B)/gen.tmp && cd $(B)/gen.tmp && $(B)/f8c/f8c -sVp utest -n UTEST $(REPO)/schema/FIX42UTEST.xml -F $(EXTRA_FIELDS) >/dev/null
	@mkdir -p $(B)/gen; for f in $(B)/gen.tmp/utest_*; do cmp -s $$f $(B)/gen/$$(basename $$f) || cp $$f $(B)/gen/; done; rm -rf $(B)/gen.tmp; touch $@
gen:
	@mkdir -p $(B)
	@$(MAKE) --no-print-directory -j$(JOBS) -C $(V) $(B)/gen/stamp

# ---- flavour objects ----
$(O)/rt/%.o: $(REPO)/runtime/%.cpp
	@mkdir -p $(@D); $(CXX) $(CXXFLAGS) -c $< -o $@
$(O)/rt/modp_numtoa.o: $(REPO)/runtime/modp_numtoa.c
	@mkdir -p $(@D); $(CC) $(filter-out -D_GLIBCXX_ASSERTIONS,$(FLAGS_$(FL))) -DHAVE_CONFIG_H -I$(REPO)/include -w -MMD -MP -c $< -o $@
$(O)/gen/%.o: $(B)/gen/%.cpp
	@mkdir -p $(@D); $(CXX) $(CXXFLAGS) -c $< -o $@
$(O)/sim/%.o: $(V)/sim/%.cpp
	@mkdir -p $(@D); $(CXX) $(KFLAGS_$(FL)) $(DEFS) $(INC) -Wall -MMD -MP -pthread -c $< -o $@
$(O)/h/%.o: $(V)/harness/%.cpp
	@mkdir -p $(@D); $(CXX) $(CXXFLAGS) -c $< -o $@
$(O)/%: $(O)/h/%.o $(SIM_OBJ) $(RT_OBJ) $(GEN_OBJ)
	@$(CXX) $(FLAGS_$(FL)) -o $@ $^ $(LDWRAP) $(LIBS)

clean:
	rm -rf $(B)

-include $(wildcard $(B)/*/*/*.d $(B)/*/*.d)
