# Per-property metadata used by bin/check (budgets, evidence texts) and bin/mkmanifest.
# secs = (quick, thorough) exploration wall-clock budget; runs = (quick, thorough) cap on runs.

COMMON_ASSUME = [
    "the simulator serialises tasks: interleavings are explored at the granularity of intercepted calls and hook sites (sequentially consistent), not at instruction or weak-memory level",
    "seeded sampling: a clean batch is evidence, not proof",
]

PROPS = {
 'C26': dict(bin='c26', level='exploration', secs=(20, 300), runs=(400000, 20000000),
    title='Persisters honour the store contract',
    technique='deterministic simulation: real MemoryPersister/FilePersister over the simulated file layer, seeded operation sequences checked op-by-op against a reference map (model-based)',
    rule='one evaluation = one seeded operation sequence (3-36 ops quick, 3-60 thorough; put/get/control put+get/last/nearest/range/reopen/purge) on the memory or the file persister, compared operation by operation with a reference map + control record; non-trivial = at least 2 puts, 1 read-type op and 4 ops in total; distinct = distinct event-log hash',
    real=['FIX8::MemoryPersister', 'FIX8::FilePersister (open/read/write/lseek/close/access/rename intercepted)', 'FIX8::Session (only as the range-retrieval callback target)', 'Timer thread of that session (simulated clock)'],
    stub=['file system: in-memory simfs behind link-time wrappers', 'Session::retrans_callback: recording override'],
    assumptions=COMMON_ASSUME + ['no I/O errors are injected (the statement does not quantify over them)', 'the memory persister has no I/O, so for it this is plain model-based sequence checking'],
    design_ref='DESIGN.md section 6, C26',
    level_text='seeded exploration of operation histories against an executable reference model; every operation result is compared, reopen audits the whole durable state',
    level_note='trusted: the reference map in harness/pmodel.hpp, the simfs semantics (completed call = durable), the kernel; sampled histories only'),
}

PROPS['C27'] = dict(bin='c27', level='fault_enumeration', secs=(20, 300), runs=(200000, 10000000),
    title='File persister survives process crashes without corruption',
    technique='deterministic simulation with fault injection: process crash injected after every completed file syscall of each seeded operation sequence (exhaustive per sequence), reopen from the surviving simulated disk, durability oracle + reference model',
    rule='one run = one seeded operation sequence (1-10 prefix ops quick, 1-14 thorough: put/control put/get/reopen, then 2-6 suffix ops); evaluations = executions = 1 fault-free pass + one execution per crash point (after every completed open/read/write/lseek/close/access of the prefix), each followed by reopen from the disk snapshot, the durability checks and the suffix ops; non-trivial = at least 8 crash points and a prefix with at least one message put and one control put; distinct = distinct event-log hash of the whole enumeration',
    exhaustive_note='crash points are enumerated exhaustively for every sampled sequence; sequences are sampled by seed',
    real=['FIX8::FilePersister (initialise/put/get/control put+get, index replay)', 'FIX8::Session only as callback target'],
    stub=['file system: in-memory simfs behind link-time wrappers of open/read/write/lseek/close/access/rename; a completed call is durable (process-crash model, no power-loss/torn-write model)'],
    assumptions=COMMON_ASSUME + ['process crashes only: every completed write/lseek is durable, writes are atomic; no torn or lost writes, no I/O errors (the statement places crash points after completed system calls)', 'a put whose last syscall completed but which had not returned counts as unacknowledged (may be present or absent)'],
    design_ref='DESIGN.md section 6, C27',
    level_text='fault enumeration: for each sampled operation sequence every crash point is executed; after each the reopened store is checked for durability of acknowledged stores, absence of foreign bytes, the control record, and exact behaviour of further stores',
    level_note='trusted: simfs semantics, the reference model, the kernel; operation sequences are sampled, crash points per sequence are exhaustive')

HOOK_COMMITS = ['63ed43e', 'b55c4fd', '731efac']

_PURE = 'pure function of its input: no schedule, clock, I/O, fault or crash point can change the result; deciding it means generating inputs, which is not deterministic simulation'
NOT_APPLICABLE = {
 'C01': _PURE + ' (encode/decode round trip)', 'C02': _PURE + ' (wire form of the encoder)', 'C03': _PURE + ' (codec totality/memory safety on arbitrary bytes)',
 'C04': _PURE + ' (strict decoding)', 'C05': _PURE + ' (permissive decoding)', 'C06': _PURE + ' (length-prefixed data fields)',
 'C07': _PURE + ' (checksum function)', 'C08': _PURE + ' (numeric text conversions)', 'C09': _PURE + ' (date/time codecs; the instant is an argument)',
 'C10': _PURE + ' (enumerated-value lookups)', 'C11': _PURE + ' (clone / field transfer)',
 'C12': 'single-threaded in-memory lookup tables and sorted set: histories are just argument sequences, no I/O, time, threads or faults',
 'C13': 'schema compiler is a batch program whose output is a function of its input files: no schedule, clock or fault dimension',
 'C14': 'schema compiler is a batch program whose output is a function of its input files: no schedule, clock or fault dimension',
 'C32': _PURE + ' (XML parser)',
}
PENDING = ['C15','C16','C17','C18','C19','C20','C21','C22','C23','C24','C25','C28','C29','C30','C31']

def _p(pid, **kw):
    kw.setdefault('level', 'exploration'); kw.setdefault('bin', pid.lower()); kw.setdefault('design_ref', 'DESIGN.md section 6, ' + pid)
    kw.setdefault('assumptions', COMMON_ASSUME); PROPS[pid] = kw

_p('C30', secs=(25, 420), runs=(200000, 20000000), mix=(3, 6), step_budget=400000,
    title='The inter-thread queue never loses, duplicates or reorders',
    technique='deterministic simulation: producers/consumers as real threads serialised by a seeded scheduler (random walk, PCT, run-to-block) that switches at FIX8_VERIF hook points between the atomic steps of the real queue; history oracle over reservation tickets',
    rule='one evaluation = one seeded world: 1-6 producers and 1-6 consumers (up to 16 tasks in thorough) on ff::uMPMC_Ptr_Queue with small geometry (2-4 sub-queues x 2-8 slots) or on FIX8::ff_unbounded_queue<T*> / <T> with default geometry, 1-6 elements per producer (15% of runs: 10-60 to reach the buffer-switch branches), then a drain; non-trivial = at least 2 tasks, 2 elements and 4 task switches; distinct = distinct event-log hash',
    real=['ff::uMPMC_Ptr_Queue push/pop', 'ff::uSWSR_Ptr_Buffer / ff::SWSR_Ptr_Buffer / BufferPool', 'FIX8::ff_unbounded_queue<T> and <T*> wrappers, ff allocator (ff_malloc/ff_free)'],
    stub=['thread scheduling: seeded kernel; 31 hook sites (guard FIX8_VERIF) are the preemption points; retry/spin branches are forced switches'],
    level_text='seeded exploration of interleavings at hook-site granularity with three scheduling policies; oracle: exactly-once, pop order = ticket (slot reservation) order, per-producer order, no false "empty", empty at the end',
    level_note='trusted: hook placement (an interleaving that needs a switch between two steps without a hook between them is not explored), sequential consistency; weak-memory effects of the hand-written atomics are out of reach')

_p('C28', secs=(25, 420), runs=(200000, 20000000), mix=(3, 6),
    title='Loggers write every accepted line exactly once, in order',
    technique='deterministic simulation: 1-8 producer threads and the real logger thread under the seeded scheduler and simulated clock; stop() injected right after the last send, after K scheduler decisions, or after a simulated delay; history oracle on the captured stream',
    rule='one evaluation = one seeded world: 1-8 producers each submitting 1-12 (thorough 1-30) lines via send()/enqueue() at enabled and disabled levels, stop() at a seeded moment; non-trivial = at least 2 lines had to appear; distinct = distinct event-log hash',
    real=['FIX8::Logger enqueue/send/stop/operator()/process_logline', 'FastFlow queue + allocator', 'logger thread (f8_thread)'],
    stub=['Logger::get_stream() overridden to capture into memory (no file layer in this property)', 'clock and scheduling: simulator'],
    level_text='seeded exploration of producer/consumer/stop interleavings; oracle: every line whose submit returned before stop() was entered is present when stop() returns, exactly once overall, per-producer order, consecutive sequence field, submit return value',
    level_note='trusted: kernel; the empty string is the documented stop sentinel and is never submitted as a line; lines submitted after stop() was entered are only checked for duplication')

_p('C31', secs=(20, 300), runs=(400000, 40000000), mix=(3, 6),
    title='Timer events fire no earlier than scheduled and in due order',
    technique='deterministic simulation: real Timer<T> thread on the simulated clock (discrete-event time), seeded schedules of schedule()/clear()/waits, optional second scheduling thread; history oracle over callback invocation records',
    rule='one evaluation = one seeded timeline: 1-12 (thorough 1-20) ops of schedule(delay 1-200 ms, repeat flag, callback result script, callback sleeping 0-8 ms), wait (whole milliseconds, or a fraction of one so that events fall into the same millisecond at different instants), clear; timer granularity 1/2/5/10 ms; non-trivial = at least 2 events scheduled and 2 callbacks run; distinct = distinct event-log hash',
    real=['FIX8::Timer<T>::operator()/schedule/clear, TimerEvent ordering, priority queue', 'hypersleep, Tickval clock reads (simulated clock behind link-time wrappers)', 'f8_spin_lock (pthread spin lock, intercepted)'],
    stub=['callbacks: recording probe methods with scripted results'],
    level_text='seeded exploration of timelines and interleavings; oracle: never before due time, due-time order among queued+due events, repeat interval and stop-on-false, nothing pending runs after clear() returns, bounded liveness after the last due time',
    level_note='trusted: simulated clock (no clock jumps injected: the statement does not quantify over them), kernel')

_p('C24', secs=(20, 300), runs=(100000, 10000000),
    title='Session activation follows the configured schedule',
    technique='deterministic simulation of time: the real Schedule::test() reads the simulated clock and is walked along a virtual timeline of 3-5 weeks in seeded steps of 1-60 s (landing on the window boundaries), each result fed back as prev and compared with an interval reference model; decode_dow enumerated directly (pure clause)',
    rule='one evaluation = one seeded schedule (start/end time of day at least 2 min apart, utc offset -720..+840 min, daily or weekly with any start/end weekday pair incl. equal and wrap-around) built directly or (half of the runs) by the real Configuration::create_session_schedule() from XML text with weekdays as names or digits and end_day left out when equal to start_day, walked over 3 weeks (3-5 thorough) from an inactive instant, about 36 000 test() calls per week; non-trivial = the schedule changed state at least twice; distinct = distinct event-log hash. In 2% of runs all 279 000 strings of length <= 3 over [a-zA-Z0-9 -] are passed to decode_dow (pure clause, enumerated directly, not simulation)',
    real=['FIX8::Schedule::test', 'Tickval clock read / adjust / in_range / get_tm', 'FIX8::decode_dow'],
    stub=['wall clock: simulated (system_clock::now wrapped at link time)', 'Configuration::create_schedule (XML) is not exercised: schedules are constructed directly with start < end as create_schedule enforces'],
    assumptions=['checks happen at least once a minute (premise of the statement)', 'start time of day < end time of day (Configuration::create_schedule rejects anything else)', 'the walk starts at an instant where the schedule is inactive, with prev=false', 'no clock jumps'] + COMMON_ASSUME[1:],
    level_text='seeded exploration of schedule configurations over simulated weeks; every call of the real function is compared with the interval model; the weekday-name clause is exhaustive up to length 3',
    level_note='trusted: the interval reference model in harness/c24.cpp, the simulated clock; decode_dow reference reading: digit 0-6 alone, or unique first letter (m,w,f), or first two letters for s/t names; further characters are ignored')

_p('C29', secs=(20, 300), runs=(100000, 10000000),
    title='Log and store rotation keeps generations and stays in bounds',
    technique='deterministic simulation of directory histories: real FileLogger rotation on a private scratch directory (logger thread under the seeded scheduler, rename/access calls recorded by the link-time wrappers) and real FilePersister purge rotation on the simulated file layer, against a reference model of generations, under ASan/UBSan/_GLIBCXX_ASSERTIONS',
    rule='one evaluation = one seeded directory state (0-7 pre-existing generations incl. ones around the 1024 cap, for the file store also data-only and index-only generations, decoy files; 15% of the logger runs with the compress flag) + rotation count from {0,1,2,3,5,1023,1024,1025,1100} or random 0..1100 + append flag + 0-2 (thorough 0-4) explicit rotate()/rotate(force) calls, for the file logger (2/3) or the file persister purge (1/3); non-trivial = at least one rotation happened with at least 2 files in the model; distinct = distinct event-log hash',
    real=['FIX8::FileLogger ctor/rotate, logger thread', 'FIX8::FilePersister::initialise(purge=true) rotation', 'rename/access as issued by fix8 (recorded)'],
    stub=['persister files: in-memory simfs; logger files: real files in a private scratch directory (std::ofstream cannot be redirected), removed afterwards'],
    assumptions=['no fault or schedule dimension in the statement: the simulator contributes controlled directory state, recorded file-system calls, generated histories and the sanitised build', 'compressed logs (.gz names) not exercised'] + COMMON_ASSUME[1:],
    level_text='seeded exploration of rotation counts and generation sets; oracle: generation shift model with cap 1024, decoys untouched, every rename issued stays inside the generation set, append-mode logs not rotated unless forced, no sanitizer/assertion abort for any count',
    level_note='trusted: reference generation model (sequential shift of existing generations), recorded calls; out-of-bounds reads inside vector capacity are caught by _GLIBCXX_ASSERTIONS, others by ASan')

_p('C15', secs=(25, 420), runs=(200000, 20000000), mix=(4, 8),
    title='Socket reader frames the byte stream exactly',
    technique='deterministic simulation with fault injection: real FIXReader/Connection threads on a simulated socket (seeded chunking, short reads, 1-byte dribble, EAGAIN bursts, delays, EOF at a seeded byte offset, corrupted preambles) under the seeded scheduler; the strings handed to Session::process are compared with the stream that was sent',
    rule='one evaluation = one seeded stream of 1-16 (thorough 1-40) framed messages with bodies of 12..8172 bytes containing look-alikes of the framing fields (10% with a zero-padded BodyLength), one chunking profile (per message, whole, random cuts, cuts at the preamble/BodyLength/checksum boundaries, 1-byte dribble), transport faults, process model threaded/pipelined/coroutine; 40% of the runs corrupt the preamble of one message (11 kinds, incl. 14 near misses of the right BeginString), 30% end the stream by EOF at a seeded offset; non-trivial = at least one complete message expected and at least 2 chunks; distinct = distinct event-log hash',
    real=['FIX8::FIXReader::read/sockRead/execute/callback_processor', 'FIX8::Connection/ServerConnection start/stop', 'FastFlow queue + callback thread (pipelined model)', 'Session::start/stop, Timer thread'],
    stub=['Session::process overridden by a recorder (the observation point of the property)', 'socket: SimSock (Poco::Net::StreamSocketImpl subclass)'],
    assumptions=COMMON_ASSUME + ['pipelined connections are judged at quiescence and never torn down inside a run (FIXWriter::stop() pushes NULL into the FastFlow queue, which asserts); their workers are recycled', 'after a corrupted preamble only "nothing corrupted is handed on, reader stops" is demanded; in the pipelined model messages still queued at EOF may be dropped with the connection'],
    level_text='seeded exploration of streams x chunkings x transport faults x interleavings; byte-exact comparison of what the session is handed; sanitizer aborts count as violations',
    level_note='trusted: SimSock semantics (TCP-like FIFO byte stream), kernel; message bodies are arbitrary bytes with valid framing (the reader does not decode beyond the preamble)')

_SESS_REAL = ['FIX8::Session (start/process/send/send_batch/send_process/handle_*/heartbeat_service/stop)', 'FIX8::ClientConnection / ServerConnection, FIXReader thread, FIXWriter', 'Timer<Session> thread (simulated clock)', 'MemoryPersister / FilePersister (on simfs)', 'message encode/decode of the compiled FIX4.2 test schema']
_SESS_STUB = ['counterparty: scripted peer speaking through an independent tag=value codec in the harness', 'socket: SimSock (Poco::Net::StreamSocketImpl subclass) with seeded short reads/writes, EAGAIN, dribble', 'application: handle_application override that calls enforce() exactly as the sample applications do and records deliveries', 'loggers: none (null loggers are accepted by the session)']
_SESS_ASSUME = COMMON_ASSUME + ['threaded and coroutine process models; C16, C17, C18 (and C15, C25) also run the pipelined model, but only in histories that never end or restart the session, because a pipelined connection cannot be torn down (FIXWriter::stop() pushes NULL into the FastFlow queue, which asserts; a pipelined reader that ended by itself leaves its callback thread spinning): such worlds are abandoned and the worker recycled', 'scripted messages stay inside plain FIX (printable values, no data fields, no nested groups)', 'session internals (next send/receive numbers, state) are read only at quiescent points']

_p('C16', secs=(30, 480), runs=(100000, 10000000), mix=(4, 8),
    title='Outbound sequence numbers are consecutive and persisted',
    technique='deterministic simulation: one real session (both roles, memory/file persister, threaded/coroutine) against a scripted peer on a simulated socket with seeded transport faults and scheduler; oracle over the parsed wire log and the persisted control record at every quiescent point',
    rule='one evaluation = one seeded history of 2-18 (thorough 2-40) ops: application send by pointer/by reference, batch of 2-6, in-sequence peer application message, peer TestRequest/Heartbeat, undecodable peer message, peer ResendRequest inside the sent range (20% carrying a number one too high), silence (timer heartbeats), restart with recovered numbers, application send timed to the scheduling point at which another thread of the session has just written to the socket; in a third of the plans operations overlap with the next one instead of waiting for quiescence; optional configured start number; with a file store every check is repeated through a second FilePersister instance opened on the same files; non-trivial = at least 2 send ops and 4 new messages on the wire; distinct = distinct event-log hash',
    real=_SESS_REAL, stub=_SESS_STUB, assumptions=_SESS_ASSUME,
    level_text='seeded exploration of session histories; every new (non-PossDup, non-GapFill) message on the wire must carry the next number (start = configured or recovered), no number reused by distinct new messages, control record == (next send, next receive) after every op, recovered number used after restart',
    level_note='trusted: harness codec and scripted peer; a Logout that ends the session may reuse the last number (documented no-increment send); after a GapFill the oracle follows the announced NewSeqNo (C18 judges that)')
_p('C17', secs=(30, 480), runs=(100000, 10000000), mix=(4, 8),
    title='Sent application messages are stored exactly as transmitted',
    technique='deterministic simulation: same world as C16 with batches weighted up; at every quiescent point the persister is read back and compared byte-for-byte with the wire log split by the independent parser',
    rule='one evaluation = one seeded history as for C16 (batches weighted up); non-trivial = at least 2 send ops and 4 new messages on the wire; distinct = distinct event-log hash',
    real=_SESS_REAL, stub=_SESS_STUB, assumptions=_SESS_ASSUME,
    level_text='seeded exploration; for every new application message on the wire get(seq) must return exactly the transmitted bytes, administrative numbers have no stored copy, nothing is stored above the highest number sent',
    level_note='trusted: harness codec (splits a batch written in one sendBytes into messages), persister get() (judged by C26)')

_p('C18', secs=(30, 480), runs=(100000, 10000000), mix=(4, 8),
    title='Resend requests are answered with a complete, faithful replay',
    technique='deterministic simulation: real session + persister (memory, file on simfs, or none) against a scripted peer; histories mixing stored application messages with unstored administrative numbers, then ResendRequests with seeded ranges; the answer on the wire is compared with the harness record of what was sent',
    rule='one evaluation = one seeded history of 1-12 (thorough 1-24) ops (application sends, batches, TestRequests answered by heartbeats, silences producing timer heartbeats) followed by 1-3 ResendRequests whose begin/end are drawn from {1, first stored, inside a gap, last stored, latest, random, 0 = to the latest} (5% invalid ranges; 12% preceded by a request beginning beyond the latest number sent, whose own answer is not judged; 20% with an application thread sending k scheduling points into the answer), each followed by an application send; non-trivial = at least one request and 3 sent messages; distinct = distinct event-log hash',
    real=_SESS_REAL + ['Session::handle_resend_request / retrans_callback', 'Persister::get(from,to,callback) of both persisters'], stub=_SESS_STUB, assumptions=_SESS_ASSUME,
    level_text='seeded exploration of stores x ranges; oracle: ascending order, every stored application message of the range replayed exactly once with PossDupFlag, original number, OrigSendingTime and body, every gap covered by a GapFill numbered with the first number of the gap, continuation from the last NewSeqNo announced, invalid ranges rejected',
    level_note='trusted: harness record of sent messages (parsed from the wire); a NewSeqNo larger than "the number after the gap" is tolerated only if it skips no stored message and does not exceed the session\'s next number; requests starting beyond the highest number sent are not generated')

_p('C19', secs=(30, 480), runs=(100000, 10000000), mix=(4, 8),
    title='Inbound messages reach the application only when in sequence',
    technique='deterministic simulation: a real session in every reachable state (before logon, continuous, resend pending, test request pending) receives one seeded inbound message at a time over the simulated socket; each is judged against the session\'s expected number read at the quiescent point just before, with MsgSeqNum taken from the real tag 34 by the independent codec',
    rule='one evaluation = one seeded history of 1-10 (thorough 1-24) ops: inbound application messages with MsgSeqNum = expected-5..+5, PossDupFlag absent/N/Y, OrigSendingTime absent / 5 s earlier / equal / 5 s, 400 ms or 1 ms later / 1 ms earlier, right/wrong CompIDs (enforcement on/off), undecodable variants (bad CheckSum, missing mandatory field), header values containing the text "34=" before or after tag 34 (both header orders), interleaved with peer admin messages, gap fills, silences (supervision states) and application sends; non-trivial = at least one inbound application message judged; distinct = distinct event-log hash',
    real=_SESS_REAL + ['Session::process / enforce / sequence_check / compid_check'], stub=_SESS_STUB, assumptions=_SESS_ASSUME + ['decode strictness itself (unknown tags, malformed values) belongs to the codec properties, which are not claimed: only bad CheckSum and a missing mandatory field are used as undecodable inputs'],
    level_text='seeded exploration; oracle per message: delivered only if in sequence or lower with PossDupFlag=Y and OrigSendingTime not after SendingTime; higher => not delivered, ResendRequest from the expected number (unless one is pending), session not ended; lower without PossDup or wrong CompIDs under enforcement => Logout on the wire and session ended; undecodable => never delivered and Reject or Logout',
    level_note='trusted: harness codec; violation classes are kept separate so one finding does not mask another')

_p('C22', secs=(30, 480), runs=(100000, 10000000), mix=(4, 8),
    title='Heartbeat and test-request supervision follows the protocol',
    technique='deterministic simulation of time: real Timer<Session> thread, heartbeat_service, FIXReader/send_process time stamps on the simulated clock (discrete-event), seeded timelines of peer traffic, application sends and silences placed around the H, H+20% and tick boundaries; oracle over the timestamped wire log',
    rule='one evaluation = one seeded timeline with HeartBtInt H in {1,2,3,5,6,10} (thorough up to 60): 1-12 (thorough 1-22) ops of wait (around H, H+20%+1, tick boundaries or arbitrary), peer Heartbeat with/without TestReqID, peer application message, peer TestRequest (also one arriving a number too high, the gap filled at once), peer application message a number too high whose gap is never filled, application send, then a final wait; random start phase within the second; non-trivial = observed for longer than H with at least 2 messages on the wire; distinct = distinct event-log hash',
    real=_SESS_REAL + ['Session::heartbeat_service / handle_test_request / handle_heartbeat', 'Tickval clock reads (simulated)'], stub=_SESS_STUB, assumptions=_SESS_ASSUME + ['no clock jumps or skew (the statement does not quantify over them)', 'bounds include whole-second truncation and one supervision tick: silent for at most H+1.1 s; TestRequest within (H+H/5)+2.1 s of receive silence; timeout Logout within the same bound after an unanswered TestRequest', 'the statement is read as upper bounds: fix8 sends the timeout Logout one tick after the TestRequest, which satisfies the implication and is recorded as an observation, not a violation'],
    level_text='seeded exploration of timelines; oracle: (a) never silent longer than H+tick, (b) receive silence > H+20% => TestRequest, (c) unanswered TestRequest => Logout and termination, (d) peer TestRequest answered by Heartbeat with the same TestReqID, (e) Heartbeat while a TestRequest is pending returns to continuous, (f) no timeout Logout without a preceding TestRequest or after a Heartbeat',
    level_note='trusted: simulated clock, wire timestamps taken at the completing sendBytes')
_p('C23', secs=(20, 300), runs=(100000, 10000000), mix=(4, 8),
    title='Logon acceptance and CompID identity are enforced consistently',
    technique='deterministic simulation: real Session::handle_logon in both roles against a scripted peer over the simulated socket, seeded configurations (CompIDs, enforcement, client list with/without IP restriction, ResetSeqNumFlag, HeartBtInt, stored control record); SessionID ==/!= enumerated directly (pure clause)',
    rule='one evaluation = one seeded logon scenario (role, enforcement on/off, right/wrong TargetCompID, client list absent/listed/not listed/listed with right or wrong IP, ResetSeqNumFlag absent/N/Y, HeartBtInt 1..600, stored control record present/absent; initiator: response CompIDs mirror / sender differs / target differs / both) followed by a little traffic; every run also enumerates all 81 pairs of SessionIDs over 3 CompID values for ==/!=; non-trivial = every run; distinct = distinct event-log hash',
    real=_SESS_REAL + ['Session::handle_logon, recover_seqnums, SessionID comparison'], stub=_SESS_STUB + ['peer IP address supplied by SimSock::peerAddress()'], assumptions=_SESS_ASSUME + ['no SessionConfig object (client list and flags are set through LoginParameters as sessionwrapper.hpp does)', 'the Logon MsgSeqNum sent by the peer is always the one the session expects (sequence recovery at logon is C20)'],
    level_text='seeded exploration of logon configurations; oracle: acceptor reaches continuous exactly under the stated conditions and otherwise ends without sending a Logon, echoes HeartBtInt, resets both numbers on ResetSeqNumFlag=Y, uses recovered numbers otherwise; initiator with enforcement ends exactly for non-mirroring CompIDs; SessionID != is the negation of ==',
    level_note='trusted: harness codec and scripted peer')

_p('C25', secs=(30, 480), runs=(100000, 10000000), mix=(4, 8),
    title='Concurrent senders get unique consecutive sequence numbers',
    technique='deterministic simulation: 2-8 application threads (real pthreads serialised by the seeded scheduler: random walk, PCT, run-to-block) call send/send_batch on one real session in the threaded or pipelined model while the reader thread answers peer TestRequests and the timer thread sends heartbeats; in a quarter of the runs a second session in the same process does the same; oracle over the parsed wire log and the persister',
    rule='one evaluation = one seeded world: 2-6 (thorough 2-8) sender tasks with 1-5 (thorough 1-8) calls each (send by pointer, by reference, batch of 2-4), 0-6 concurrent peer TestRequests, HeartBtInt 1 or 30, memory/file persister (file store also read through a second instance), short writes/EAGAIN on the socket, optional second session; non-trivial = at least 2 tasks, 3 application messages and 6 task switches; distinct = distinct event-log hash',
    real=_SESS_REAL + ['FIXWriter::write/write_batch spin lock, FIXWriter::execute writer thread and FastFlow queue (pipelined model)', 'Session::send_process under _con_spl/_per_spl'], stub=_SESS_STUB,
    assumptions=COMMON_ASSUME + ['pipelined worlds are judged at quiescence and never torn down (FIXWriter::stop() pushes NULL into the FastFlow queue, which asserts); their workers are recycled', 'batch members need not stay adjacent on the wire (the statement does not say so; in the pipelined model a single send can slip between them - counted as an observation)', '"no data race": the serialising scheduler hides races from TSan; unsynchronised accesses are only caught when they change the observable outcome in an explored interleaving (see DESIGN.md section 9)'],
    level_text='seeded exploration of interleavings at intercepted-call granularity; oracle: socket bytes split into well-formed messages, new messages carry consecutive unique numbers, every application message sent appears exactly once, stored copy == transmitted bytes',
    level_note='trusted: kernel (lock hand-off model), harness codec; weak-memory behaviour and races without observable effect are out of reach')

_p('C20', secs=(30, 480), runs=(100000, 10000000), mix=(4, 8),
    title='Sequence gaps are recovered with a conformant counterparty',
    technique='deterministic simulation with fault injection: one real session against an executable reference model of the FIX session layer (numbers/stores what it sends, replays with PossDup/OrigSendingTime and GapFills on ResendRequest, answers TestRequests, never violates the protocol) over the simulated socket; faults: disconnects during which the counterparty keeps sending (messages lost), reconnects with higher Logon numbers, session process restarts over the file store; liveness checked after a final fault-free stretch',
    rule='one evaluation = one seeded history of 2-14 (thorough 2-30) ops: counterparty application/admin sends, session application sends, disconnect, link drop inside the resend answer of the counterparty, new counterparty messages ahead of a resend answer or right after the logon exchange, reconnect (30% with a restart of the session process), silence; half of the histories end with a clean reconnect that is judged before any further traffic, then a final fault-free stretch with one more counterparty message; non-trivial = at least 2 counterparty application messages, one disconnect and one reconnect; distinct = distinct event-log hash',
    real=_SESS_REAL + ['Session::sequence_check / handle_logon / handle_sequence_reset / process numbering'], stub=['counterparty: reference model of the FIX session layer written for this check (harness/c20.cpp RefPeer), speaking through the independent codec', 'socket: SimSock', 'application: recording handle_application'],
    assumptions=_SESS_ASSUME + ['HeartBtInt 30 s and silences below 3 s: no supervision timeouts inside a run', 'attribution of a termination to a sequence reason is by elimination: the reference counterparty never logs out, never sends wrong CompIDs or times, so any termination while the link is up is one; the Logout text is recorded as corroboration'],
    level_text='seeded exploration of loss/reconnect histories; oracle: the session never ends while the link is up, every application message the counterparty numbered is delivered at least once by the end of the final fault-free stretch (bounded liveness), the session\'s expected number equals the counterparty\'s next number at the end',
    level_note='trusted: the reference counterparty model, harness codec; sampled histories')

_p('C21', secs=(40, 600), runs=(100000, 10000000), mix=(4, 8),
    title='Two fix8 sessions deliver every application message across failures',
    technique='deterministic simulation with fault injection: a real initiator and a real acceptor (Session + Connection + reader threads + Timer + FilePersister on the simulated disk each) joined by a simulated TCP link (latency, jitter, short reads/writes) under the seeded scheduler; faults: link drops with bytes in flight lost, restarts of either process between operations; reconnect glue as in ReliableClientSession / SessionInstance; bounded-liveness final phase',
    rule='one evaluation = one seeded schedule of 2-16 (thorough 2-36) ops: application send on either side, link drop (right away with bytes in flight, or after delivery), restart of the initiator or acceptor process, refused connection attempts, sends right after start(), a connection dying inside its logon exchange, an application send k scheduling points into a resend answer, silence; after every fault the pair reconnects; final fault-free phase of at most 5 simulated seconds; non-trivial = at least 2 application messages and one fault; distinct = distinct event-log hash',
    real=['two complete fix8 sessions: Session, ClientConnection/ServerConnection, FIXReader threads, FIXWriter, Timer threads, FilePersister on simfs, message codec', 'logon / resend / gap-fill / sequence-reset handling on both sides (each side is the other\'s counterparty)'],
    stub=['TCP: SimSock pair + Link (FIFO per direction, latency+jitter, drop = EOF on both ends, bytes in flight lost)', 'the few lines of application glue of ReliableClientSession::operator() and SessionInstance are reproduced by the harness (new connection per attempt, new acceptor session per accepted connection, stores reopened)', 'application: recording handle_application calling enforce()'],
    assumptions=_SESS_ASSUME + ['HeartBtInt 30 s: no supervision timeouts inside a run', 'application sends are only issued while both sessions are established (a real application gets false from send() otherwise)', 'restarts happen between operations (as the statement says), drops at any moment'],
    level_text='seeded exploration of send/drop/restart schedules; oracle: every message whose send() succeeded is delivered to the peer application at least once by the end of the final phase, first deliveries in send order, every re-delivery flagged PossDup, both sessions continuous within 3 simulated seconds after every reconnect, no session ends without an injected fault',
    level_note='trusted: link model, harness glue; one known finding (fault during resend recovery) is listed in known_findings.json and suppressed by its narrow signature only')
