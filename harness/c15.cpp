// C15 — the socket reader frames the byte stream exactly: real FIXReader (read/sockRead/execute/callback_processor),
// Connection and (pipelined) FastFlow queue over the simulated socket; Session::process is the observation point.
#include "snode.hpp"

using namespace FIX8;
using namespace sn;
using drv::Op; using drv::Plan; using drv::Result;

namespace {

struct RecSession : Session
{
	std::vector<std::string> got;
	RecSession() : Session(UTEST::ctx(), sender_comp_id("SRV")) {}
	bool process(const f8String& from) override { got.push_back(from); sim::trace("process " + std::to_string(from.size()) + " bytes"); return true; }
	bool handle_application(const unsigned, const Message *&) override { return true; }
	States::SessionStates st() const { return _state; }
};

// a framed message with an arbitrary body of exactly 'blen' bytes (BodyLength = blen); the body contains look-alikes of
// the framing fields inside values
std::string framed(unsigned blen, unsigned cid, unsigned pad = 0)   // pad: BodyLength written with leading zeros to this many digits (legal for a FIX int)
{
	sim::Rng r(cid * 7919ull + blen);
	std::string body = "35=D" + std::string(1, SOH) + "34=" + std::to_string(cid) + SOH;
	static const char *noise[] = { "58=8=FIX.4.2", "58=9=12", "58=10=123", "58=1234567890", "58=abc", "1=A10=000", "58=x9=", "11=ORD" };
	while (body.size() + 12 < blen) { body += noise[r.below(8)]; body += SOH; }
	if (body.size() > blen) body = body.substr(0, blen - 1) + SOH;
	while (body.size() < blen) { if (body.size() + 1 == blen) body += SOH; else if (body.back() == SOH) body += "1="; else body += 'z'; }
	if (body.size() >= 2 && body[body.size() - 1] != SOH) body[body.size() - 1] = SOH;
	std::string len = std::to_string(body.size()); if (pad > len.size()) len = std::string(pad - len.size(), '0') + len;
	std::string m = std::string("8=FIX.4.2") + SOH + "9=" + len + SOH + body;
	unsigned sum = 0; for (unsigned char c : m) sum += c;
	char cs[8]; snprintf(cs, sizeof cs, "%03u", sum % 256);
	return m + "10=" + cs + SOH;
}

std::string corrupt(int kind, unsigned param)
{
	std::string tail = std::string("35=0") + SOH + "10=000" + SOH;
	switch (kind)
	{
	case 0: return std::string("8=FIX.4.4") + SOH + "9=5" + SOH + tail;                 // wrong BeginString (same length)
	case 1: return std::string("8=FIX.4.2") + SOH + "9=x5" + SOH + tail;                // non-numeric BodyLength
	case 2: return std::string("8=FIX.4.2") + SOH + "9=0" + SOH + tail;                 // zero
	case 3: return std::string("8=FIX.4.2") + SOH + "9=" + std::to_string(8173 + param) + SOH + tail;   // over the limit
	case 4: return std::string("8=FIX.4.2") + SOH + "9=" + std::string(5 + param, '7') + SOH + tail;    // long run of digits (5 or more: over the limit)
	case 5: return std::string("9=FIX.4.2") + SOH + "9=5" + SOH + tail;                 // first field not 8=
	case 6: return std::string("8+FIX.4.2") + SOH + "9=5" + SOH + tail;                 // missing '='
	case 7: return std::string("8=FIX.4.2") + SOH + "9=" + SOH + tail;                  // empty BodyLength
	case 8: return std::string(13 + param, '3') + SOH + tail;                           // only digits where the preamble should be
	case 10:                                                                           // wrong BeginString, near misses of the right one
	{
		static const char *wrong[] = { "FIX.4.20", "FIX.4.2X", "FIX.4.2 ", "FIX.4.", "FIX.4", "fix.4.2", "XFIX.4.2", " FIX.4.2", "FIX.4.1", "FIX.4.3", "FIX.5.0", "FIX,4.2", "FIX.4.2.", "F" };
		return std::string("8=") + wrong[param % (sizeof wrong / sizeof *wrong)] + SOH + "9=5" + SOH + tail;
	}
	default: return std::string("8=FIXT1.1") + SOH + "9=5" + SOH + tail;
	}
}

} // namespace

struct C15 : drv::Harness
{
	const char *id() const override { return "C15"; }
	int sched_retries() const override { return 4; }
	int abandoned = 0;

	Plan generate(sim::Rng& rng, bool thorough) override
	{
		Plan p; drv::draw_sched_knobs(p, rng, true);
		int pm = (int)rng.below(20); pm = pm < 13 ? pm_thread : pm < 16 ? pm_pipeline : pm_coro;
		p.knobs["pm"] = pm;
		p.knobs["net_seed"] = (int64_t)(rng.next() >> 2);
		p.knobs["chunk"] = pm == pm_coro ? 0 : rng.below(5);          // 0 per message, 1 whole stream, 2 random cuts, 3 framing boundaries, 4 dribble
		p.knobs["short_read_pm"] = rng.chance(0.5) ? rng.range(0, 600) : 0;
		p.knobs["dribble_pm"] = rng.chance(0.2) ? rng.range(0, 300) : 0;
		p.knobs["eagain_pm"] = pm != pm_coro && rng.chance(0.3) ? rng.range(10, 200) : 0;
		p.knobs["delay_us"] = rng.chance(0.4) ? rng.range(1, 5000) : 0;
		int n = (int)rng.range(1, thorough ? 40 : 16); unsigned cid = 0;
		for (int i = 0; i < n; ++i)
		{
			int x = (int)rng.below(100);
			int64_t blen = x < 50 ? rng.range(12, 80) : x < 80 ? rng.range(80, 900) : x < 92 ? rng.range(900, 8000) : rng.pick(std::vector<int64_t>{ 12, 13, 8170, 8171, 8172 });
			p.ops.push_back(Op("msg", { blen, (int64_t)++cid, blen <= 8000 && rng.chance(0.1) ? rng.pick(std::vector<int64_t>{ 5, 6, 7, 9 }) : 0 }));
		}
		int fam = (int)rng.below(10);
		if (fam < 4)
		{
			static const std::vector<int64_t> params = { 0, 1, 2, 5, 20, 40, 2100, 8000, 8192, 9000 };
			int kind = (int)rng.below(12); if (kind == 11) kind = 10;
			p.ops.insert(p.ops.begin() + rng.below(p.ops.size() + 1), Op("bad", { kind, kind == 10 ? (int64_t)rng.below(14) : rng.pick(params) }));
		}
		else if (fam < 7 && pm != pm_coro) p.ops.push_back(Op("eof", { rng.range(0, 1000) }));   // per-mille position in the stream
		return p;
	}

	Result run(const Plan& p, bool verbose) override
	{
		Result r;
		const int pm = (int)p.knob("pm", pm_thread);
		sim::begin(drv::sim_config(p, verbose));
		int64_t t0 = sim::now_ns();
		SimSock *impl = new SimSock((uint64_t)p.knob("net_seed", 1));
		impl->cfg.short_read = p.knob("short_read_pm") / 1000.0; impl->cfg.dribble = p.knob("dribble_pm") / 1000.0; impl->cfg.eagain = p.knob("eagain_pm") / 1000.0;
		auto *sock = new Poco::Net::StreamSocket(impl);
		Poco::Net::SocketAddress addr("127.0.0.1", 5000);
		RecSession *ses = new RecSession;
		ses->set_login_parameters(login_params(30));
		auto *conn = new ServerConnection(sock, addr, *ses, 30, (ProcessModel)pm);
		ses->start(conn, false);

		// the stream
		std::vector<std::string> msgs; std::string stream; int bad_at = -1; std::vector<size_t> ends; long eof_pm = -1;
		for (auto& op : p.ops)
		{
			if (op.k == "msg") { msgs.push_back(framed((unsigned)op.arg(0), (unsigned)op.arg(1), (unsigned)op.arg(2))); if (op.arg(2)) sim::count("bodylength_zero_padded"); stream += msgs.back(); ends.push_back(stream.size()); }
			else if (op.k == "bad" && bad_at < 0) { bad_at = (int)msgs.size(); stream += corrupt((int)op.arg(0), (unsigned)op.arg(1)); sim::count(("corrupt_kind_" + std::to_string(op.arg(0))).c_str()); }
			else if (op.k == "eof") eof_pm = op.arg(0);
		}
		size_t eof_at = eof_pm >= 0 ? stream.size() * eof_pm / 1000 : stream.size();
		bool send_eof = eof_pm >= 0 || bad_at >= 0;
		std::string to_send = stream.substr(0, eof_at);
		// chunking
		std::vector<size_t> cuts; sim::Rng cr((uint64_t)p.knob("net_seed", 1) ^ 0x5151);
		int chunk = (int)p.knob("chunk");
		if (chunk == 0) { for (size_t e : ends) if (e < to_send.size()) cuts.push_back(e); }
		else if (chunk == 2) { size_t pos = 0; while (pos < to_send.size()) { pos += 1 + cr.below(cr.chance(0.3) ? 2000 : 60); if (pos < to_send.size()) cuts.push_back(pos); } }
		else if (chunk == 3) { size_t start = 0; for (size_t e : ends) { for (size_t off : { (size_t)10, (size_t)12, (size_t)13, (size_t)14, (size_t)15 }) if (start + off < to_send.size() && cr.chance(0.5)) cuts.push_back(start + off); if (e >= 7 && e - 7 < to_send.size() && cr.chance(0.5)) cuts.push_back(e - 7); if (e < to_send.size() && cr.chance(0.5)) cuts.push_back(e); start = e; } }
		else if (chunk == 4) { for (size_t i = 1; i < to_send.size() && i < 3000; ++i) cuts.push_back(i); }
		cuts.push_back(to_send.size());
		std::sort(cuts.begin(), cuts.end()); cuts.erase(std::unique(cuts.begin(), cuts.end()), cuts.end());
		size_t pos = 0; int64_t delay = p.knob("delay_us") * 1000;
		auto pump = [&]() { if (pm == pm_coro) { int guard = 0; while (!impl->rx.empty() && !ses->is_shutdown() && guard++ < 100000) conn->reader_execute(); } };
		for (size_t c : cuts)
		{
			if (c <= pos) continue;
			impl->inject(to_send.substr(pos, c - pos)); pos = c;
			sim::count("chunks");
			if (pm == pm_coro) pump();
			else if (delay && cr.chance(0.5)) sim::advance(delay); else if (cr.chance(0.3)) sim::settle(); else sim::yield_point();
		}
		if (send_eof) { impl->eof(); sim::count("eof_injected"); if (pm == pm_coro) { try { conn->reader_execute(); } catch (...) {} } }
		sim::advance(20000000);      // 20 ms: everything delivered has been consumed by now
		sim::settle();

		// ---- oracle -----------------------------------------------------------------------------------------
		size_t expect_n = 0;
		for (size_t i = 0; i < msgs.size(); ++i) if (ends[i] <= eof_at && (bad_at < 0 || (int)i < bad_at)) expect_n = i + 1; else break;
		std::string fam = bad_at >= 0 ? "corrupt" : eof_pm >= 0 ? "valid_eof" : "valid";
		for (size_t i = 0; i < ses->got.size() && i < expect_n; ++i)
			if (ses->got[i] != msgs[i]) { r.fail("message_altered", fam, "message #" + std::to_string(i) + " handed to the session differs from what was sent: got " + std::to_string(ses->got[i].size()) + " bytes '" + fx::hex(ses->got[i], 60) + "' sent " + std::to_string(msgs[i].size()) + " bytes '" + fx::hex(msgs[i], 60) + "'"); break; }
		// after a corrupted preamble the statement only demands that nothing corrupted is handed on; and in the pipelined
		// model messages still queued when the stream ends (EOF) are dropped with the connection - both are not counted as
		// missing. A valid stream without EOF must arrive completely in every model, and with EOF in the threaded model.
		const bool must_be_complete = bad_at < 0 && (eof_pm < 0 || pm != pm_pipeline);
		if (ses->got.size() < expect_n && must_be_complete) r.fail("message_missing", fam, "only " + std::to_string(ses->got.size()) + " of " + std::to_string(expect_n) + " completely delivered messages were handed to the session");
		if (ses->got.size() > expect_n) r.fail(bad_at >= 0 ? "corrupt_handed_on" : "extra_message", fam, "the session was handed " + std::to_string(ses->got.size()) + " messages but only " + std::to_string(expect_n) + " valid ones were completely delivered" + (bad_at >= 0 ? " before the corrupted preamble" : "") + "; extra: '" + fx::hex(ses->got[expect_n], 60) + "'");
		if (send_eof && pm == pm_thread)
		{
			// the reader must have stopped with an error (thread ended, session terminated)
			if (ses->st() != States::st_session_terminated) r.fail("reader_not_stopped", fam, std::string("after ") + (bad_at >= 0 ? "a corrupted preamble" : "EOF") + " the reader did not stop with an error (session state " + Session::get_session_state_string(ses->st()) + ")");
		}
		sim::count(("family_" + fam).c_str()); sim::count(("pm_" + std::to_string(pm)).c_str()); sim::count("messages_expected", (int64_t)expect_n);
		r.nontrivial = expect_n >= 1 && cuts.size() >= 2;
		r.sim_ns = sim::now_ns() - t0;

		if (pm == pm_pipeline)
		{
			// never tear a pipelined connection down inside a run (FIXWriter::stop() pushes NULL into the FastFlow queue,
			// which asserts): abandon the parked threads, recycle the worker now and then
			drv::collect(r); sim::end();
			if (++abandoned >= 40) drv::request_recycle();
			return r;
		}
		ses->stop();
		delete conn; delete ses; delete sock;
		drv::collect(r);
		sim::end();
		return r;
	}

	std::vector<Op> simpler(const Op& op) const override
	{
		std::vector<Op> v;
		if (op.k == "msg" && op.arg(0) > 12) { Op o = op; o.a[0] = 12; v.push_back(o); o.a[0] = op.arg(0) / 2 < 12 ? 12 : op.arg(0) / 2; v.push_back(o); }
		if (op.k == "bad" && op.arg(1) > 0) { Op o = op; o.a[1] = op.arg(1) / 2; v.push_back(o); }
		return v;
	}
	std::vector<std::pair<std::string, int64_t>> knob_floor() const override { return { { "short_read_pm", 0 }, { "dribble_pm", 0 }, { "eagain_pm", 0 }, { "delay_us", 0 }, { "chunk", 1 } }; }
};

int main(int argc, char **argv)
{
	fx::global_init();
	C15 h;
	return drv::main_(argc, argv, h);
}
