// C16 (outbound sequence numbers consecutive and persisted) and C17 (sent application messages stored exactly as
// transmitted): same world and op lists, two oracles. Each binary reports only its own property.
#pragma once
#include "sworld.hpp"

namespace c1617 {

using namespace sw;

struct H : drv::Harness
{
	std::string pid; bool is16;
	explicit H(const char *id_) : pid(id_), is16(pid == "C16") {}
	const char *id() const override { return pid.c_str(); }
	int sched_retries() const override { return 4; }

	Plan generate(sim::Rng& rng, bool thorough) override
	{
		Plan p; drv::draw_sched_knobs(p, rng, true);
		World::draw_net_knobs(p, rng);
		p.knobs["tweak_outbound"] = rng.chance(0.5);
		p.knobs["initiator"] = rng.below(2);
		{ int x = (int)rng.below(20); p.knobs["pm"] = x < 12 ? pm_thread : x < 15 ? pm_coro : pm_pipeline; }
		p.knobs["pers"] = rng.chance(0.5) ? 2 : 1;
		p.knobs["hb"] = p.knobs["pm"] == pm_pipeline ? 30 : rng.pick(std::vector<int64_t>{ 1, 2, 5, 30 });   // a pipelined session must not time out (it cannot be stopped)
		if (rng.chance(0.2)) { p.knobs["cfg_send"] = rng.range(2, 60); p.knobs["cfg_recv"] = 0; }
		int n = (int)rng.range(2, thorough ? 40 : 18);
		for (int i = 0; i < n; ++i)
		{
			int w = (int)rng.below(100);
			if (w < 4) p.ops.push_back(Op("app_on_write", { rng.range(200, 2500) }));   // an application send timed to land just after another thread of the session (timer, inbound) wrote to the socket
			else if (w < 22) p.ops.push_back(Op("app"));
			else if (w < 30) p.ops.push_back(Op("appref"));
			else if (w < (is16 ? 45 : 55)) p.ops.push_back(Op("batch", { rng.range(2, 6) }));
			else if (w < 65) p.ops.push_back(Op("papp"));
			else if (w < 70) p.ops.push_back(Op("ptest"));
			else if (w < 72) p.ops.push_back(Op("pbad"));
			else if (w < 76) p.ops.push_back(Op("phb"));
			else if (w < 84) p.ops.push_back(Op("prr", { rng.range(0, 100), rng.range(0, 100), rng.chance(0.4), 0, rng.chance(0.2) }));   // positions (percent) in the sent range, E=0 flag, (unused), the request's own number one too high
			else if (w < 93) p.ops.push_back(Op("silence", { rng.chance(0.5) ? rng.range(100, 1500) : rng.range(1500, 7000) }));
			else p.ops.push_back(Op("restart"));
		}
		// some plans let an operation overlap with the next one (no wait for quiescence in between): application sends then
		// race with the inbound thread's answers and control-record updates
		if (rng.chance(0.35))
			for (auto& op : p.ops)
				if (op.k != "restart" && op.k != "silence" && op.k != "prr" && rng.chance(0.5)) op.s = "race";
		return p;
	}

	Result run(const Plan& p, bool verbose) override
	{
		Result r;
		simfs::reset();
		sim::begin(drv::sim_config(p, verbose));
		int64_t t0 = sim::now_ns();
		World w; w.configure(p);
		std::string fam = std::string(w.initiator ? "initiator" : "acceptor") + (w.pers == 2 ? ":file" : ":mem");

		// oracle state
		long expect_next = w.cfg_send ? w.cfg_send : 1;               // next MsgSeqNum a new message must carry
		std::map<long, std::string> new_by_seq;                       // seq -> raw of the new message that carried it
		std::map<long, std::string> app_wire;                         // seq -> raw bytes of new application messages
		std::set<long> admin_seqs; long max_sent = 0; size_t checked = 0;
		size_t nsent_ops = 0, nrestarts = 0; bool activity = false;

		auto scan_wire = [&]()
		{
			for (; checked < w.out.size(); ++checked)
			{
				const Msg& m = w.out[checked].m; long seq = m.num(34);
				if (m.gapfill()) { long n = m.num(36); if (n > expect_next) expect_next = n; sim::count("wire_gapfill"); continue; }
				if (m.possdup()) { sim::count("wire_possdup"); continue; }
				activity = true;
				auto it = new_by_seq.find(seq);
				if (it != new_by_seq.end() && it->second != m.raw && is16)
				{
					// the documented exception: a Logout sent when the session aborts reuses the number and ends the session
					// ... and a message an application thread sends while that Logout is going out (session already ending) finds the number not consumed
					const bool after_abort_logout = it->second.find(std::string("\x01") + "35=5" + "\x01") != std::string::npos;
					if (!(m.type() == "5") && !after_abort_logout) r.fail("seqnum_reused", fam, "two distinct new messages carry MsgSeqNum " + std::to_string(seq) + ": " + m.brief());
				}
				if (seq != expect_next && is16)
				{
					auto prev = new_by_seq.find(seq);
					const bool after_abort_logout = seq == expect_next - 1 && prev != new_by_seq.end() && prev->second.find(std::string("\x01") + "35=5" + "\x01") != std::string::npos;
					if (!(m.type() == "5" && seq == expect_next - 1) && !after_abort_logout)
						r.fail("seqnum_not_consecutive", fam + (m.type() == "D" ? ":app" : ":admin"), "new message " + m.brief() + " carries MsgSeqNum " + std::to_string(seq) + " but the previous new message implies " + std::to_string(expect_next));
				}
				if (seq >= expect_next) expect_next = seq + 1;
				new_by_seq[seq] = m.raw;
				if (seq > max_sent) max_sent = seq;
				if (m.type() == "D") { app_wire[seq] = m.raw; sim::count("wire_new_app"); } else { admin_seqs.insert(seq); sim::count("wire_new_admin"); }
			}
		};
		auto check_store = [&](const char *when)
		{
			if (is16 || !w.per) return;
			for (auto& kv : app_wire)
			{
				f8String got;
				if (!w.per->get((unsigned)kv.first, got)) { r.fail("app_not_stored", fam, std::string(when) + ": application message sent with MsgSeqNum " + std::to_string(kv.first) + " is not in the persister"); return; }
				if (got != kv.second) { r.fail("stored_differs_from_wire", fam, std::string(when) + ": stored copy of MsgSeqNum " + std::to_string(kv.first) + " is '" + fx::hex(got, 70) + "' (" + std::to_string(got.size()) + " bytes) but '" + fx::hex(kv.second, 70) + "' (" + std::to_string(kv.second.size()) + " bytes) went on the wire"); return; }
			}
			for (long s : admin_seqs) { if (app_wire.count(s)) continue; f8String got; if (w.per->get((unsigned)s, got)) { r.fail("admin_stored", fam, std::string(when) + ": administrative message number " + std::to_string(s) + " has a stored copy '" + fx::hex(got, 60) + "'"); return; } }
			if (auto dv = w.durable_view())
				for (auto& kv : app_wire)
				{
					f8String got;
					if (!dv->get((unsigned)kv.first, got)) { r.fail("app_not_stored", fam + ":reopened", std::string(when) + ": application message sent with MsgSeqNum " + std::to_string(kv.first) + " is not found by a second persister instance opened on the same files"); return; }
					if (got != kv.second) { r.fail("stored_differs_from_wire", fam + ":reopened", std::string(when) + ": a second persister instance opened on the same files returns '" + fx::hex(got, 70) + "' (" + std::to_string(got.size()) + " bytes) for MsgSeqNum " + std::to_string(kv.first) + " but '" + fx::hex(kv.second, 70) + "' (" + std::to_string(kv.second.size()) + " bytes) went on the wire"); return; }
				}
			else if (w.pers == 2) { r.fail("store_unreadable", fam, std::string(when) + ": a second persister instance cannot open the session's store files"); return; }
			unsigned last = 0; w.per->get_last_seqnum(last);
			if ((long)last > max_sent) r.fail("stored_never_sent", fam, std::string(when) + ": persister holds a message under " + std::to_string(last) + " but the highest number sent is " + std::to_string(max_sent));
		};
		auto check_ctrl = [&](const char *when)
		{
			if (!is16 || !w.per || !activity || w.snaps.empty()) return;
			const Snap& s = w.snaps.back();
			if (s.terminated) return;
			if (!s.has_ctrl) { r.fail("control_record_missing", fam, std::string(when) + ": no control record persisted although messages were sent/processed (session next_send=" + std::to_string(s.nss) + " next_receive=" + std::to_string(s.nrs) + ")"); return; }
			if (s.cs != s.nss || s.ct != s.nrs) r.fail("control_record_stale", fam, std::string(when) + ": persisted control record (" + std::to_string(s.cs) + "," + std::to_string(s.ct) + ") differs from the session's next send/receive (" + std::to_string(s.nss) + "," + std::to_string(s.nrs) + ")");
			else if (s.durable == 0 || (s.durable == 1 && (s.dcs != s.nss || s.dct != s.nrs))) r.fail("control_record_stale", fam + ":reopened", std::string(when) + ": a second persister instance opened on the same files finds control record " + (s.durable ? "(" + std::to_string(s.dcs) + "," + std::to_string(s.dct) + ")" : std::string("none")) + " but the session's next send/receive is (" + std::to_string(s.nss) + "," + std::to_string(s.nrs) + ")");
		};

		w.connect();
		bool up = w.peer_logon();
		w.snap(0); scan_wire(); check_ctrl("after logon"); check_store("after logon");
		if (!up) r.fail("harness_logon_failed", fam, "session did not reach continuous after a plain Logon exchange (state " + std::string(state_name((int)w.ses->st())) + ")");
		if (w.framing_error.size()) r.fail("wire_garbled", fam, w.framing_error);

		for (size_t i = 0; i < p.ops.size() && r.v.empty() && w.alive(); ++i)
		{
			const Op& op = p.ops[i];
			if (op.k == "app") { w.app_send(w.next_app_id()); ++nsent_ops; }
			else if (op.k == "app_on_write")
			{
				// wait (bounded) until some other thread of the session has put bytes on the wire, then send at that very scheduling point:
				// the other sender is still between its socket write and its bookkeeping
				const size_t mark = w.impl ? w.impl->tx.size() : 0;
				if (w.impl && sim::settle_watch([&]() { return w.impl && w.impl->tx.size() > mark; }, op.arg(0) * 1000000ll)) sim::count("send_right_after_foreign_write");
				// (if what was written is the session's own abort Logout the session is over: an application would not send into it)
				if (w.alive() && w.ses->st() != States::st_logoff_sent && w.ses->st() != States::st_session_terminated) { w.app_send(w.next_app_id()); ++nsent_ops; }
			}
			else if (op.k == "appref") { w.app_send_ref(w.next_app_id()); ++nsent_ops; }
			else if (op.k == "batch") { std::vector<std::string> ids; for (int k = 0; k < op.arg(0); ++k) ids.push_back(w.next_app_id("B")); w.app_batch(ids); ++nsent_ops; sim::count("op_batch"); }
			else if (op.k == "papp") w.peer.send_msg("D", Peer::order_body("P" + std::to_string(w.peer.out_seq)));
			else if (op.k == "ptest") w.peer.send_msg("1", { {112, "T" + std::to_string(i)} });
			else if (op.k == "phb") w.peer.send_msg("0", {});
			else if (op.k == "pbad") { w.peer.send_msg("D", { {11, "X" + std::to_string(i)}, {21, "1"}, {55, "X"}, {54, "1"}, {40, "1"} }); sim::count("op_peer_undecodable"); }   // TransactTime missing: rejected
			else if (op.k == "prr")
			{
				long hi = std::max<long>(max_sent, 1); long b = 1 + op.arg(0) * (hi - 1) / 100, e = 1 + op.arg(1) * (hi - 1) / 100; if (e < b) std::swap(b, e); if (op.arg(2)) e = 0;
				if (op.arg(4)) { ++w.peer.out_seq; sim::count("op_resend_request_out_of_sequence"); }      // as if the peer's previous message had been lost
				w.peer.send_msg("2", { {7, std::to_string(b)}, {16, std::to_string(e)} }); sim::count("op_resend_request");
			}
			else if (op.k == "silence") sim::advance(op.arg(0) * 1000000ll);
			else if (op.k == "restart" && !w.pipelined())
			{
				w.settle(); scan_wire();
				// the numbers the next session must recover
				long rec_send = -1;
				if (w.per) { unsigned a = 0, b = 0; if (w.per->get(a, b)) rec_send = a; }
				bool full = !(w.initiator && w.pers == 1);
				if (full) { w.teardown(); if (w.pers == 1) rec_send = -1; } else w.drop_connection();
				w.cfg_send = w.cfg_recv = 0;
				w.peer.out_seq = w.snaps.empty() ? 1 : w.snaps.back().nrs;          // a well-behaved peer continues with what the session expects
				if (full && w.pers == 1) w.peer.out_seq = 1;
				if (is16 && rec_send > 0 && rec_send != expect_next && w.snaps.size() && !w.snaps.back().terminated)
					r.fail("control_record_stale", fam, "at restart the persisted next send number is " + std::to_string(rec_send) + " but the last new message implies " + std::to_string(expect_next));
				expect_next = rec_send > 0 ? rec_send : 1;
				if (full && w.pers == 1) { new_by_seq.clear(); app_wire.clear(); admin_seqs.clear(); max_sent = 0; }
				checked = w.out.size();
				w.connect(full); ++nrestarts; sim::count("op_restart");
				if (!w.peer_logon()) { w.settle(); }
			}
			if (op.s == "race" && i + 1 < p.ops.size() && p.ops[i + 1].k != "restart") { sim::count("op_overlapped_with_next"); continue; }
			w.settle();
			w.snap(i + 1); scan_wire();
			if (w.framing_error.size()) r.fail("wire_garbled", fam, w.framing_error);
			check_ctrl(("after op#" + std::to_string(i) + " " + op.k).c_str());
			check_store(("after op#" + std::to_string(i) + " " + op.k).c_str());
		}
		sim::count(("family_" + fam).c_str());
		r.nontrivial = nsent_ops >= 2 && new_by_seq.size() >= 4;
		r.sim_ns = sim::now_ns() - t0;
		w.teardown();
		drv::collect(r);
		sim::end();
		return r;
	}

	std::vector<Op> simpler(const Op& op) const override
	{
		std::vector<Op> v;
		if (op.k == "batch" && op.arg(0) > 2) v.push_back(Op("batch", { 2 }));
		if (op.k == "batch") v.push_back(Op("app"));
		if (op.k == "appref") v.push_back(Op("app"));
		if (op.k == "silence" && op.arg(0) > 100) v.push_back(Op("silence", { op.arg(0) / 2 }));
		if (op.s == "race") { Op o = op; o.s.clear(); v.push_back(o); }
		return v;
	}
	std::vector<std::pair<std::string, int64_t>> knob_floor() const override { return { { "short_read_pm", 0 }, { "short_write_pm", 0 }, { "eagain_pm", 0 }, { "dribble_pm", 0 }, { "cfg_send", 0 }, { "pm", 0 } }; }
};

inline int main_(int argc, char **argv, const char *pid)
{
	fx::global_init();
	H h(pid);
	return drv::main_(argc, argv, h);
}

} // namespace c1617
