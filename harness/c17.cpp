#include "c1617.hpp"
int main(int argc, char **argv) { return c1617::main_(argc, argv, "C17"); }
