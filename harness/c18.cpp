// C18 — resend requests are answered with a complete, faithful replay: real Session::handle_resend_request /
// retrans_callback / persister range retrieval against the harness's own record of what was sent.
#include "sworld.hpp"

using namespace sw;

struct C18 : drv::Harness
{
	const char *id() const override { return "C18"; }
	int sched_retries() const override { return 3; }

	Plan generate(sim::Rng& rng, bool thorough) override
	{
		Plan p; drv::draw_sched_knobs(p, rng, true);
		World::draw_net_knobs(p, rng);
		p.knobs["tweak_outbound"] = rng.chance(0.5);
		p.knobs["initiator"] = rng.below(2);
		{ int x = (int)rng.below(20); p.knobs["pm"] = x < 12 ? pm_thread : x < 15 ? pm_coro : pm_pipeline; }
		p.knobs["pers"] = rng.chance(0.15) ? 0 : rng.chance(0.5) ? 2 : 1;
		p.knobs["hb"] = p.knobs["pm"] == pm_pipeline ? 30 : rng.pick(std::vector<int64_t>{ 1, 1, 2, 30 });   // a pipelined session must not time out (it cannot be stopped)
		int n = (int)rng.range(1, thorough ? 24 : 12);
		for (int i = 0; i < n; ++i)
		{
			int w = (int)rng.below(100);
			if (w < 40) p.ops.push_back(Op("app"));
			else if (w < 50) p.ops.push_back(Op("batch", { rng.range(2, 4) }));
			else if (w < 70) p.ops.push_back(Op("ptest"));                         // answered by a heartbeat: an unstored number
			else if (w < 85) p.ops.push_back(Op("silence", { rng.range(1100, 3300) }));  // timer heartbeats: unstored numbers
			else p.ops.push_back(Op("papp"));
		}
		int q = (int)rng.range(1, 3);
		for (int i = 0; i < q; ++i)
		{
			// begin/end selectors: 0 = 1, 1 = first stored, 2 = inside a gap, 3 = last stored, 4 = latest, 5 = random, 6 = zero (E: to the latest; B: invalid)
			// a request that begins beyond the latest number sent (unusual; its own answer is not judged) must not spoil later requests
			if (rng.chance(0.12)) { p.ops.push_back(Op("prr", { 7, rng.pick(std::vector<int64_t>{ 6, 7 }), (int64_t)(rng.next() >> 3), 0 })); if (rng.chance(0.5)) p.ops.push_back(Op("app")); }
			// arg4 = k > 0: an application thread sends a new message k scheduling points into the answer
			p.ops.push_back(Op("prr", { rng.pick(std::vector<int64_t>{ 0, 1, 2, 3, 4, 5, 5, 5 }), rng.pick(std::vector<int64_t>{ 6, 6, 1, 2, 3, 4, 5, 5 }), (int64_t)(rng.next() >> 3), rng.chance(0.05), rng.chance(0.2) ? rng.range(1, 60) : 0 }));
			if (rng.chance(0.8)) p.ops.push_back(Op("app"));
			if (rng.chance(0.3)) p.ops.push_back(Op("ptest"));
		}
		return p;
	}

	struct Sent { std::string raw, stime; bool app; sn::Flds body; };

	Result run(const Plan& p, bool verbose) override
	{
		Result r;
		simfs::reset();
		sim::begin(drv::sim_config(p, verbose));
		int64_t t0 = sim::now_ns();
		World w; w.configure(p);
		std::string fam = w.pers ? (w.pers == 2 ? "file" : "mem") : "nopersist";
		std::map<long, Sent> sent; size_t checked = 0; long announced = -1; int requests = 0;
		auto scan_new = [&]()
		{
			for (; checked < w.out.size(); ++checked)
			{
				const Msg& m = w.out[checked].m;
				if (m.possdup() || m.gapfill()) continue;
				sent[m.num(34)] = Sent{m.raw, m.get(52), m.type() == "D", m.body()};
			}
		};
		w.connect();
		if (!w.peer_logon()) r.fail("harness_logon_failed", fam, "no logon");
		scan_new();

		for (size_t i = 0; i < p.ops.size() && r.v.empty() && w.alive(); ++i)
		{
			const Op& op = p.ops[i];
			if (op.k == "app") w.app_send(w.next_app_id());
			else if (op.k == "batch") { std::vector<std::string> ids; for (int k = 0; k < op.arg(0); ++k) ids.push_back(w.next_app_id("B")); w.app_batch(ids); }
			else if (op.k == "papp") w.peer.send_msg("D", Peer::order_body("P" + std::to_string(w.peer.out_seq)));
			else if (op.k == "ptest") w.peer.send_msg("1", { {112, "T" + std::to_string(i)} });
			else if (op.k == "silence") sim::advance(op.arg(0) * 1000000ll);
			else if (op.k == "prr")
			{
				w.settle(); scan_new();
				long latest = (long)w.ses->nss() - 1; if (latest < 1) continue;
				std::vector<long> stored; if (w.pers) for (auto& kv : sent) if (kv.second.app && kv.first <= latest) stored.push_back(kv.first);
				std::vector<long> gaps; for (long s = 1; s <= latest; ++s) if (!std::binary_search(stored.begin(), stored.end(), s)) gaps.push_back(s);
				sim::Rng pr((uint64_t)op.arg(2));
				auto pick = [&](int64_t sel, bool is_end) -> long
				{
					switch (sel)
					{
					case 0: return 1;
					case 1: return stored.empty() ? 1 : stored.front();
					case 2: return gaps.empty() ? 1 : gaps[pr.below(gaps.size())];
					case 3: return stored.empty() ? latest : stored.back();
					case 4: return latest;
					case 6: return 0;
					case 7: return latest + 1 + (long)pr.below(3) + (is_end ? 3 : 0);
					default: return 1 + (long)pr.below((uint64_t)latest);
					}
				};
				long B = pick(op.arg(0), false), E = pick(op.arg(1), true);
				bool invalid = op.arg(3) != 0;
				if (!invalid && E != 0 && E < B) std::swap(B, E);
				if (invalid) { if (pr.chance(0.5)) B = 0; else { B = std::min(latest, 2l) + 1; E = 1; if (B <= E) B = E + 1; } }
				size_t mark = w.out.size();
				++requests;
				sim::trace("REQUEST resend " + std::to_string(B) + ".." + std::to_string(E) + " latest=" + std::to_string(latest));
				w.peer.send_msg("2", { {7, std::to_string(B)}, {16, std::to_string(E)} });
				bool raced = false;
				if (op.arg(4) > 0 && !invalid && B <= latest && w.pers && w.pm != pm_coro)
				{
					int seen = 0; const int after = (int)op.arg(4);
					if (sim::settle_watch([&]() { return w.alive() && w.ses->st() == States::st_resend_request_received && ++seen >= after; }, 50000000ll))
					{ raced = w.app_send(w.next_app_id("R")); if (raced) sim::count("send_inside_resend_answer"); }
				}
				w.settle();
				if (!invalid && B > latest) { sim::count("request_beyond_latest"); scan_new(); continue; }   // numbers never sent: the answer is not judged
				std::string ctx = "ResendRequest(" + std::to_string(B) + "," + std::to_string(E) + ") with latest=" + std::to_string(latest) + " stored={";
				for (long s : stored) ctx += std::to_string(s) + " "; ctx += "}: ";
				// the answer = PossDup / GapFill messages written since the request (a heartbeat from the timer may be interleaved)
				std::vector<Msg> ans; std::vector<Msg> others;
				for (size_t k = mark; k < w.out.size(); ++k) { const Msg& m = w.out[k].m; if (m.possdup() || m.gapfill()) ans.push_back(m); else others.push_back(m); }
				if (invalid)
				{
					bool rej = false; for (auto& m : others) if (m.type() == "3") rej = true;
					if (!rej) r.fail("invalid_range_not_rejected", fam, ctx + "no Reject was sent");
					if (!ans.empty()) r.fail("invalid_range_replayed", fam, ctx + "a replay was sent for an invalid range: " + ans[0].brief());
					sim::count("request_invalid");
					scan_new();
					continue;
				}
				long Ee = (E == 0 || E > latest) ? latest : E;
				sim::count(E == 0 ? "request_to_latest" : "request_bounded");
				// expected answer
				struct Exp { bool gap; long seq, newseq; };
				std::vector<Exp> exp;
				for (long s = B; s <= Ee;)
				{
					if (std::binary_search(stored.begin(), stored.end(), s)) { exp.push_back(Exp{false, s, 0}); ++s; }
					else { long e = s; while (e + 1 <= Ee && !std::binary_search(stored.begin(), stored.end(), e + 1)) ++e; exp.push_back(Exp{true, s, e + 1}); s = e + 1; }
				}
				std::string got; for (auto& m : ans) got += "[" + m.brief() + "] ";
				std::string want; for (auto& e : exp) want += e.gap ? "[GapFill 34=" + std::to_string(e.seq) + " 36=" + std::to_string(e.newseq) + "] " : "[replay 34=" + std::to_string(e.seq) + "] ";
				std::string tail = " | answer: " + got + "| expected: " + want;
				// (1) ascending order
				for (size_t k = 1; k < ans.size(); ++k) if (ans[k].num(34) <= ans[k - 1].num(34)) { r.fail("answer_not_ascending", fam, ctx + "answer is not in ascending sequence order" + tail); break; }
				// (2) stored messages replayed exactly once, faithfully
				for (auto& e : exp)
				{
					if (e.gap) continue;
					int n = 0; const Msg *rm = nullptr; for (auto& m : ans) if (!m.gapfill() && m.num(34) == e.seq) { ++n; rm = &m; }
					if (n == 0) { r.fail("stored_message_not_replayed", fam, ctx + "stored message " + std::to_string(e.seq) + " was not replayed" + tail); continue; }
					if (n > 1) { r.fail("message_replayed_twice", fam, ctx + "message " + std::to_string(e.seq) + " replayed " + std::to_string(n) + " times" + tail); continue; }
					const Sent& o = sent[e.seq];
					if (!rm->possdup()) r.fail("replay_without_possdup", fam, ctx + "replay of " + std::to_string(e.seq) + " has no PossDupFlag=Y");
					if (rm->get(122) != o.stime) r.fail("replay_origsendingtime", fam, ctx + "replay of " + std::to_string(e.seq) + " has OrigSendingTime '" + rm->get(122) + "' but the original SendingTime was '" + o.stime + "'");
					if (rm->body() != o.body) r.fail("replay_body_differs", fam, ctx + "replay of " + std::to_string(e.seq) + " has a different body");
				}
				for (auto& m : ans) if (!m.gapfill()) { bool ok = false; for (auto& e : exp) if (!e.gap && e.seq == m.num(34)) ok = true; if (raced && m.num(34) == latest + 1) ok = true; /* the message sent during the answer may be part of it */ if (!ok) r.fail("unexpected_replay", fam, ctx + "message " + std::to_string(m.num(34)) + " was replayed but is not a stored message of the requested range" + tail); }
				// (3) gaps covered by GapFills that start at the first number of the gap and end right after it
				for (auto& e : exp)
				{
					if (!e.gap) continue;
					const Msg *g = nullptr; for (auto& m : ans) if (m.gapfill() && m.num(34) == e.seq) g = &m;
					if (!g)
					{
						// is the gap covered by a GapFill with a wrong number?
						const Msg *other = nullptr; for (auto& m : ans) if (m.gapfill() && m.num(36) >= e.newseq && m.num(36) > e.seq) { other = &m; break; }
						if (other) r.fail("gapfill_wrong_msgseqnum", fam, ctx + "gap " + std::to_string(e.seq) + ".." + std::to_string(e.newseq - 1) + " is filled by a SequenceReset carrying MsgSeqNum " + std::to_string(other->num(34)) + " instead of " + std::to_string(e.seq) + tail);
						else r.fail("gap_not_filled", fam, ctx + "numbers " + std::to_string(e.seq) + ".." + std::to_string(e.newseq - 1) + " have no stored message and are not covered by a GapFill" + tail);
						continue;
					}
					// "the number after it": a larger NewSeqNo is tolerated as long as it skips no stored message and does not run ahead
					// of the session's own numbering (then the extra numbers could only have been gap-filled anyway)
					bool skips_stored = false; for (long s = e.newseq; s < g->num(36); ++s) if (std::binary_search(stored.begin(), stored.end(), s)) skips_stored = true;
					if (g->num(36) != e.newseq && (g->num(36) < e.newseq || skips_stored || g->num(36) > latest + 1)) r.fail("gapfill_wrong_newseqno", g->num(36) > e.newseq ? "skips_ahead" : "too_small", ctx + "GapFill at " + std::to_string(e.seq) + " announces NewSeqNo " + std::to_string(g->num(36)) + " but the number after the gap is " + std::to_string(e.newseq) + tail);
				}
				for (auto& m : ans) if (m.gapfill() && m.num(34) <= latest) { bool ok = false; for (auto& e : exp) if (e.gap && e.seq == m.num(34)) ok = true; /* a GapFill over numbers never sent is not judged */ if (!ok && r.v.empty()) r.fail("unexpected_gapfill", fam, ctx + "GapFill " + m.brief() + " does not start at a gap of the requested range" + tail); }
				announced = -1; for (auto& m : ans) if (m.gapfill()) announced = m.num(36);
				if (w.ses->st() == States::st_resend_request_received) r.fail("stuck_after_resend", fam, ctx + "session state is " + std::string(state_name((int)w.ses->st())) + " after answering");
				// (4) continuation
				long expect_next = latest + 1 + (raced ? 1 : 0); for (auto& m : ans) if (m.gapfill() && m.num(36) > expect_next) expect_next = m.num(36);   // continue from the last NewSeqNo announced
				if (r.v.empty() && (long)w.ses->nss() != expect_next) r.fail("continuation_wrong", fam, ctx + "after the answer the session's next new number is " + std::to_string(w.ses->nss()) + " expected " + std::to_string(expect_next) + tail);
				scan_new();
				continue;
			}
			w.settle(); scan_new();
			if (w.framing_error.size()) r.fail("wire_garbled", fam, w.framing_error);
		}
		sim::count(("family_" + fam).c_str());
		r.nontrivial = requests >= 1 && sent.size() >= 3;
		r.sim_ns = sim::now_ns() - t0;
		w.teardown();
		drv::collect(r);
		sim::end();
		return r;
	}

	std::vector<Op> simpler(const Op& op) const override
	{
		std::vector<Op> v;
		if (op.k == "batch") v.push_back(Op("app"));
		if (op.k == "silence" && op.arg(0) > 1100) v.push_back(Op("silence", { 1100 }));
		return v;
	}
	std::vector<std::pair<std::string, int64_t>> knob_floor() const override { return { { "short_read_pm", 0 }, { "short_write_pm", 0 }, { "eagain_pm", 0 }, { "dribble_pm", 0 }, { "pm", 0 } }; }
	bool keep_op(const Plan& p, size_t i) const override { return p.ops[i].k == "prr" && std::count_if(p.ops.begin(), p.ops.end(), [](const Op& o) { return o.k == "prr"; }) == 1; }
};

int main(int argc, char **argv)
{
	fx::global_init();
	C18 h;
	return drv::main_(argc, argv, h);
}
