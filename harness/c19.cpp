// C19 — inbound messages reach the application only when in sequence: one inbound message at a time is injected
// into a real session (all reachable states), judged against the session's own expected number read at the quiescent
// point just before, with MsgSeqNum taken from the real tag 34 as parsed by the independent codec.
#include "sworld.hpp"

using namespace sw;

struct C19 : drv::Harness
{
	const char *id() const override { return "C19"; }
	int sched_retries() const override { return 3; }

	Plan generate(sim::Rng& rng, bool thorough) override
	{
		Plan p; drv::draw_sched_knobs(p, rng, true);
		World::draw_net_knobs(p, rng);
		p.knobs["initiator"] = rng.below(2);
		p.knobs["pm"] = rng.chance(0.8) ? pm_thread : pm_coro;
		p.knobs["pers"] = rng.below(3);
		p.knobs["hb"] = rng.pick(std::vector<int64_t>{ 2, 5, 30 });
		p.knobs["enforce"] = rng.chance(0.7);
		p.knobs["hdr_order"] = rng.chance(0.6);               // 1 = CompIDs before MsgSeqNum, as fix8 itself and most engines encode
		p.knobs["skip_logon"] = rng.chance(0.07);
		p.knobs["logon_mode"] = rng.chance(0.15);             // 1 = the counterparty's Logon is a PossDup resend numbered below the expected number (stored control record)
		int n = (int)rng.range(1, thorough ? 24 : 10);
		for (int i = 0; i < n; ++i)
		{
			int w = (int)rng.below(100);
			if (w < 70)
			{
				int d = (int)rng.below(10); int64_t delta = d < 4 ? 0 : d < 7 ? rng.range(1, 5) : -rng.range(1, 5);
				int64_t pd = delta < 0 ? rng.pick(std::vector<int64_t>{ 0, 1, 2, 2, 2 }) : rng.pick(std::vector<int64_t>{ 0, 0, 0, 1, 2 });
				int64_t ost = pd == 2 ? rng.pick(std::vector<int64_t>{ 0, 1, 1, 2, 3, 4, 5, 6 }) : rng.pick(std::vector<int64_t>{ 0, 0, 0, 1, 3 });
				int64_t comp = rng.chance(0.12) ? rng.range(1, 2) : 0;
				int64_t kind = rng.chance(0.8) ? 0 : rng.pick(std::vector<int64_t>{ 3, 4 });
				int64_t h34 = rng.chance(0.2) ? rng.range(1, 3) : 0;   // 1: text 34=<expected>, 2: 34=<expected-1>, 3: 34=<seq+1> inside an earlier header value
				p.ops.push_back(Op("pin", { delta, pd, ost, comp, kind, h34 }));
			}
			else if (w < 80) p.ops.push_back(Op("padmin", { rng.chance(0.7) ? 0 : rng.range(1, 3), rng.below(2) }));   // heartbeat / test request, delta
			else if (w < 88) p.ops.push_back(Op("silence", { rng.range(500, 9000) }));
			else if (w < 94) p.ops.push_back(Op("app"));
			else p.ops.push_back(Op("pfill", { rng.range(0, 3) }));   // GapFill from the peer covering the session's expected number (+k)
		}
		return p;
	}

	Result run(const Plan& p, bool verbose) override
	{
		Result r;
		simfs::reset();
		sim::begin(drv::sim_config(p, verbose));
		int64_t t0 = sim::now_ns();
		World w; w.configure(p);
		const bool order = p.knob("hdr_order") != 0;
		const bool low_logon = p.knob("logon_mode") == 1 && w.pers && !p.knob("skip_logon");
		if (low_logon) { w.per = w.open_persister(); w.per->put(4, 7); }       // the session will expect 7
		w.connect();
		if (low_logon)
		{
			if (w.initiator) w.settle();
			Flds f = { {35, "A"}, {49, w.peer_id}, {56, w.ses_id}, {34, "5"}, {43, "Y"}, {52, utc_ts(sim::now_ns())}, {122, utc_ts(sim::now_ns() - 3000000000ll)}, {98, "0"}, {108, std::to_string(w.hb)} };
			w.peer.send(wire("FIX.4.2", f)); w.settle(); sim::count("logon_possdup_below_expected");
			if (w.ses->st() != States::st_continuous) r.fail("logon_not_completed", "possdup_logon_below_expected", std::string("a Logon resent with PossDupFlag=Y and MsgSeqNum 5 (expected 7) left the session in state ") + state_name((int)w.ses->st()));
		}
		else if (!p.knob("skip_logon")) { if (!w.peer_logon()) r.fail("logon_not_completed", "logon", "plain in-sequence Logon exchange did not reach continuous"); }
		int pins = 0;

		auto build = [&](const std::string& type, long seq, const Flds& body, int pd, int ost, int comp, const std::string& h34text) -> std::string
		{
			std::string snd = comp == 1 ? "WRONG" : w.peer_id, tgt = comp == 2 ? "OTHER" : w.ses_id;
			int64_t now = sim::now_ns();
			Flds f; f.push_back({35, type});
			if (order) { f.push_back({49, snd}); f.push_back({56, tgt}); if (!h34text.empty()) f.push_back({115, h34text}); f.push_back({34, std::to_string(seq)}); }
			else { f.push_back({34, std::to_string(seq)}); f.push_back({49, snd}); f.push_back({56, tgt}); if (!h34text.empty()) f.push_back({115, h34text}); }
			if (pd) f.push_back({43, pd == 2 ? "Y" : "N"});
			f.push_back({52, utc_ts(now)});
			// OrigSendingTime: 1 five seconds earlier, 2 equal, 3 five seconds later, 4 one millisecond later, 5 400 ms later, 6 one millisecond earlier
			static const int64_t ost_delta[] = { 0, -5000000000ll, 0, 5000000000ll, 1000000ll, 400000000ll, -1000000ll };
			if (ost) f.push_back({122, utc_ts(now + ost_delta[ost % 7])});
			for (auto& x : body) f.push_back(x);
			return wire("FIX.4.2", f);
		};

		for (size_t i = 0; i < p.ops.size() && r.v.empty() && w.ses && w.conn && !w.ses->terminated(); ++i)
		{
			const Op& op = p.ops[i];
			if (op.k == "silence") { sim::advance(op.arg(0) * 1000000ll); w.settle(); continue; }
			if (op.k == "app") { w.app_send(w.next_app_id()); w.settle(); continue; }
			if (op.k == "padmin")
			{
				long seq = (long)w.ses->nrs() + op.arg(0);
				w.peer.send(build(op.arg(1) ? "1" : "0", seq, op.arg(1) ? Flds{ {112, "X"} } : Flds{}, 0, 0, 0, "")); w.peer.out_seq = seq + 1;
				w.settle(); continue;
			}
			if (op.k == "pfill")
			{
				long exp = (long)w.ses->nrs();
				w.peer.send(build("4", exp, { {123, "Y"}, {36, std::to_string(exp + 1 + op.arg(0))} }, 2, 1, 0, ""));
				w.settle(); continue;
			}
			// ---- one inbound application message ----------------------------------------------------------
			w.settle();
			const long expected = (long)w.ses->nrs(); const int state_before = (int)w.ses->st();
			long seq = expected + op.arg(0); if (seq < 1) seq = 1;
			const int pd = (int)op.arg(1), ost = (int)op.arg(2), comp = (int)op.arg(3), kind = (int)op.arg(4), h34 = (int)op.arg(5);
			std::string id = "IN" + std::to_string(i);
			Flds body = Peer::order_body(id);
			std::string h34text;
			if (h34 == 1) h34text = "Z34=" + std::to_string(expected); else if (h34 == 2) h34text = "Z34=" + std::to_string(expected > 1 ? expected - 1 : 1); else if (h34 == 3) h34text = "Z34=" + std::to_string(seq + 1);
			if (kind == 4) { Flds b2; for (auto& x : body) if (x.first != 60) b2.push_back(x); body = b2; }       // mandatory TransactTime missing
			if (kind == 5) body.push_back({9876, "x"});                                                             // unknown tag (strict mode)
			if (kind == 6) for (auto& x : body) if (x.first == 38) x.second = "1x0";                                 // malformed quantity
			std::string bytes = build("D", seq, body, pd, ost, comp, h34text);
			if (kind == 3) { size_t c = bytes.size() - 4; bytes[c] = bytes[c] == '9' ? '0' : bytes[c] + 1; }        // wrong CheckSum
			const bool undecodable = kind >= 3;
			size_t dmark = w.ses->delivered.size(), omark = w.out.size();
			std::string desc = "inbound app message MsgSeqNum=" + std::to_string(seq) + " (session expected " + std::to_string(expected) + ", state " + state_name(state_before) + ")"
				+ (pd ? std::string(" PossDupFlag=") + (pd == 2 ? "Y" : "N") : "") + (ost ? std::string(" OrigSendingTime ") + (ost == 1 ? "earlier" : ost == 2 ? "equal" : ost == 3 ? "later" : ost == 4 ? "1ms later" : ost == 5 ? "400ms later" : "1ms earlier") : "")
				+ (comp ? std::string(" wrong ") + (comp == 1 ? "SenderCompID" : "TargetCompID") : "") + (undecodable ? " undecodable(kind " + std::to_string(kind) + ")" : "") + (h34text.empty() ? "" : " with 115=" + h34text + (order ? " before" : " after") + " tag 34");
			sim::trace("INJECT " + desc);
			w.peer.send(bytes); ++pins;
			w.settle();
			bool delivered = false; for (size_t k = dmark; k < w.ses->delivered.size(); ++k) if (w.ses->delivered[k].id == id) delivered = true;
			bool rr = false, rr_from_expected = false, logout = false, reject = false; std::string wire;
			for (size_t k = omark; k < w.out.size(); ++k)
			{
				const Msg& m = w.out[k].m; wire += "[" + m.brief() + "] ";
				if (m.type() == "2") { rr = true; if (m.num(7) == expected) rr_from_expected = true; }
				if (m.type() == "5") logout = true;
				if (m.type() == "3" || m.type() == "j") reject = true;
			}
			bool ended = w.ses->terminated();
			std::string tail = " -> delivered=" + std::to_string(delivered) + " ended=" + std::to_string(ended) + " wire: " + (wire.empty() ? "(nothing)" : wire);
			const bool established = States::is_established((States::SessionStates)state_before);
			const bool possdup_ok = pd == 2 && !(ost >= 3 && ost <= 5);
			const bool compid_bad = comp && w.enforce;
			std::string sname = state_name(state_before);
			// the only-if clause holds in every state
			if (delivered)
			{
				sim::count("pin_delivered");
				if (undecodable) r.fail("deliver_undecodable", "kind" + std::to_string(kind), desc + tail);
				else if (compid_bad) r.fail("deliver_wrong_compid", sname, desc + tail);
				else if (!(seq == expected || (seq < expected && possdup_ok)))
					r.fail("deliver_out_of_seq", std::string(seq > expected ? "higher" : "lower") + (h34text.empty() ? "" : ":34_in_header_value"), desc + tail);
			}
			if (established && state_before != States::st_logon_received)
			{
				if (undecodable) { sim::count("pin_undecodable"); if (!reject && !logout) r.fail("no_reject", "kind" + std::to_string(kind), desc + tail); }
				else if (compid_bad) { sim::count("pin_wrong_compid"); if (!logout || !ended) r.fail("no_logout", "wrong_compid", desc + tail); }
				else if (seq > expected)
				{
					sim::count("pin_higher");
					if (ended) r.fail("session_ended_on_gap", sname + (h34text.empty() ? "" : ":34_in_header_value"), desc + tail);
					if (state_before != States::st_resend_request_sent && !rr_from_expected)
						r.fail(rr ? "resend_request_wrong_begin" : "no_resend_request", sname + (h34text.empty() ? "" : ":34_in_header_value"), desc + tail);
				}
				else if (seq < expected && pd != 2) { sim::count("pin_lower_no_possdup"); if (!logout || !ended) r.fail("no_logout", "lower_without_possdup" + std::string(h34text.empty() ? "" : ":34_in_header_value"), desc + tail); }
				else if (seq == expected) sim::count("pin_in_sequence");
				else sim::count("pin_lower_possdup");
			}
			sim::count(("state_" + sname).c_str());
		}
		r.nontrivial = pins >= 1;
		r.sim_ns = sim::now_ns() - t0;
		w.teardown();
		drv::collect(r);
		sim::end();
		return r;
	}

	std::vector<Op> simpler(const Op& op) const override
	{
		std::vector<Op> v;
		if (op.k == "pin") { for (size_t k : { (size_t)5, (size_t)2, (size_t)1, (size_t)3 }) if (op.arg(k)) { Op o = op; o.a[k] = 0; v.push_back(o); } }
		if (op.k == "silence" && op.arg(0) > 500) v.push_back(Op("silence", { op.arg(0) / 2 }));
		return v;
	}
	std::vector<std::pair<std::string, int64_t>> knob_floor() const override { return { { "short_read_pm", 0 }, { "short_write_pm", 0 }, { "eagain_pm", 0 }, { "dribble_pm", 0 }, { "pm", 0 }, { "pers", 0 } }; }
};

int main(int argc, char **argv)
{
	fx::global_init();
	C19 h;
	return drv::main_(argc, argv, h);
}
