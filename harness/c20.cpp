// C20 — sequence gaps are recovered with a conformant counterparty: one real session against an executable reference
// model of the FIX session layer (never violates the protocol), histories with losses while disconnected, reconnects
// with higher Logon numbers, spec-conformant replays.
#include "sworld.hpp"

using namespace sw;

namespace {

// the reference counterparty (see DESIGN.md section 6, C20)
struct RefPeer
{
	struct Rec { std::string type; Flds body; std::string stime; bool app; bool emitted; };
	World& w; unsigned out_next = 1, in_expected = 1; std::map<unsigned, Rec> sent; bool connected = false, logged_on = false;
	size_t seen = 0; std::vector<std::string> all_app_ids; bool sent_logout = false; int resend_answers = 0, gapfills = 0, my_resend_requests = 0;
	int cut_after = -1; bool cut_done = false;   // fault: the link drops after this many frames of the next resend answer
	int live_before = 0;                         // legal but unusual: new application messages go out ahead of the next resend answer
	int live_after_logon = 0;                    // ... or right after the logon exchange, before the counterparty has read the session's ResendRequest
	explicit RefPeer(World& world) : w(world) {}

	std::string frame(const std::string& type, unsigned seq, const Flds& body, bool possdup, const std::string& orig)
	{
		Flds f = { {35, type}, {49, w.peer_id}, {56, w.ses_id}, {34, std::to_string(seq)} };
		if (possdup) f.push_back({43, "Y"});
		f.push_back({52, utc_ts(sim::now_ns())});
		if (possdup && !orig.empty()) f.push_back({122, orig});
		for (auto& x : body) f.push_back(x);
		return wire("FIX.4.2", f);
	}
	// number, record, and emit only if the link is up and the session is logged on
	unsigned send(const std::string& type, const Flds& body, bool force = false)
	{
		unsigned seq = out_next++; bool app = type == "D";
		bool emit = connected && (logged_on || force);
		sent[seq] = Rec{type, body, utc_ts(sim::now_ns()), app, emit};
		if (app) all_app_ids.push_back(body[0].second);
		if (emit) w.peer.send(frame(type, seq, body, false, "")); else sim::count("model_message_lost_while_disconnected");
		return seq;
	}
	void on_resend_request(unsigned B, unsigned E)
	{
		++resend_answers;
		unsigned last = out_next - 1; if (E == 0 || E > last) E = last;
		for (; live_before > 0; --live_before) { send("D", Peer::order_body("L" + std::to_string(out_next))); sim::count("model_live_message_ahead_of_resend_answer"); }
		int frames = 0;
		for (unsigned s = B; s <= E;)
		{
			if (cut_after >= 0 && frames++ >= cut_after) { cut_after = -1; cut_done = true; connected = false; logged_on = false; sim::count("fault_link_drop_inside_resend_answer"); return; }
			auto it = sent.find(s);
			if (it != sent.end() && it->second.app) { w.peer.send(frame("D", s, it->second.body, true, it->second.stime)); ++s; }
			else
			{
				unsigned e = s; while (e + 1 <= E && !(sent.count(e + 1) && sent[e + 1].app)) ++e;
				w.peer.send(frame("4", s, { {123, "Y"}, {36, std::to_string(e + 1)} }, true, sent.count(s) ? sent[s].stime : utc_ts(sim::now_ns())));
				++gapfills; s = e + 1;
			}
		}
	}
	// react to what the session wrote; returns true if it reacted
	bool react()
	{
		bool did = false;
		for (; seen < w.out.size(); ++seen)
		{
			const Msg& m = w.out[seen].m; unsigned seq = (unsigned)m.num(34);
			if (w.out[seen].conn != w.conn_no) continue;
			// (session is the acceptor) its Logon answer has arrived: the counterparty may send before it reads what follows
			if (m.type() == "A" && logged_on) for (; live_after_logon > 0; --live_after_logon) { send("D", Peer::order_body("A" + std::to_string(out_next))); sim::count("model_live_message_right_after_logon"); did = true; }
			if (m.type() == "2") { on_resend_request((unsigned)m.num(7), (unsigned)m.num(16)); did = true; if (cut_done) return true; }
			if (m.type() == "1") { send("0", { {112, m.get(112)} }); did = true; }
			// lenient receive side: never logs the session out
			if (m.type() == "4" && m.gapfill()) { if ((unsigned)m.num(36) > in_expected) in_expected = (unsigned)m.num(36); continue; }
			if (seq == in_expected) ++in_expected;
			else if (seq > in_expected && !m.possdup()) { if (my_resend_requests < 3) { ++my_resend_requests; send("2", { {7, std::to_string(in_expected)}, {16, "0"} }); did = true; } in_expected = seq + 1; }
		}
		return did;
	}
};

} // namespace

struct C20 : drv::Harness
{
	const char *id() const override { return "C20"; }
	int sched_retries() const override { return 2; }

	Plan generate(sim::Rng& rng, bool thorough) override
	{
		Plan p; drv::draw_sched_knobs(p, rng, true);
		World::draw_net_knobs(p, rng);
		p.knobs["initiator"] = rng.below(2);
		p.knobs["pm"] = rng.chance(0.8) ? pm_thread : pm_coro;
		p.knobs["pers"] = rng.chance(0.6) ? 2 : 1;
		p.knobs["hb"] = 30;
		p.knobs["final_reconnect"] = rng.chance(0.5);
		p.knobs["final_live_after_logon"] = rng.chance(0.4) ? rng.range(1, 2) : 0;
		int n = (int)rng.range(2, thorough ? 30 : 14);
		for (int i = 0; i < n; ++i)
		{
			int w = (int)rng.below(100);
			if (w < 35) p.ops.push_back(Op("papp"));
			else if (w < 45) p.ops.push_back(Op("padmin"));
			else if (w < 58) p.ops.push_back(Op("app"));
			else if (w < 68) p.ops.push_back(Op("disconnect"));
			else if (w < 71) p.ops.push_back(Op("cut_next_resend", { rng.range(0, 3) }));
			else if (w < 73) p.ops.push_back(Op("live_next_resend", { rng.range(1, 2) }));
			else if (w < 75) p.ops.push_back(Op("live_after_logon", { rng.range(1, 2) }));
			else if (w < 88) p.ops.push_back(Op("reconnect", { rng.chance(0.3) }));     // arg: restart the session process (file store) instead of just reconnecting
			else p.ops.push_back(Op("silence", { rng.range(10, 3000) }));
		}
		return p;
	}

	Result run(const Plan& p, bool verbose) override
	{
		Result r;
		simfs::reset();
		sim::begin(drv::sim_config(p, verbose));
		int64_t t0 = sim::now_ns();
		World w; w.configure(p);
		RefPeer m(w);
		std::string fam = std::string(w.initiator ? "initiator" : "acceptor") + (w.pers == 2 ? ":file" : ":mem");
		int reconnects = 0, disconnects = 0; std::string death;

		auto exchange = [&]()
		{
			for (int round = 0; round < 12; ++round)
			{
				w.settle(); bool did = m.connected && m.react();
				if (m.cut_done) { m.cut_done = false; ++disconnects; w.settle(); w.drop_connection(); return; }   // the link dropped inside the model's resend answer
				if (!did) break;
			}
			w.settle();
		};
		auto check_alive = [&](const std::string& when)
		{
			if (!r.v.empty() || !m.connected) return;
			if (w.ses && w.ses->terminated())
			{
				std::string text; for (auto& o : w.out) if (o.conn == w.conn_no && o.m.type() == "5") text = o.m.get(58);
				std::string sig = text.find("equence") != std::string::npos ? (text.find("Logon") != std::string::npos || !m.logged_on ? "at_logon" : "after_logon") : "no_logout_text";
				if (when.find("logon") != std::string::npos) sig = "at_logon";
				r.fail("terminated_for_sequence_reason", sig, fam + " " + when + ": the session ended although the counterparty followed the protocol; Logout text: '" + text + "' (session expected " + std::to_string(w.ses->nrs()) + ", counterparty next " + std::to_string(m.out_next) + ")");
			}
		};
		auto connect = [&](bool restart_process)
		{
			if (restart_process && w.ses && !(w.pers == 1)) w.destroy_session();
			bool fresh = w.ses == nullptr;
			if (!fresh && !w.initiator) { w.destroy_session(); fresh = true; }          // an acceptor gets a new session instance per connection
			w.connect(fresh);
			m.connected = true; m.logged_on = false; m.seen = w.out.size() > 0 ? m.seen : 0;
			if (w.initiator) w.settle();
			m.react();                                             // sees the session's Logon (initiator)
			if (m.cut_done) { m.cut_done = false; ++disconnects; w.settle(); w.drop_connection(); return; }
			m.send("A", { {98, "0"}, {108, std::to_string(w.hb)} }, true);
			m.logged_on = true;
			// (session is the initiator) the counterparty's Logon answer may be followed at once by new messages
			if (w.initiator) for (; m.live_after_logon > 0; --m.live_after_logon) { m.send("D", Peer::order_body("A" + std::to_string(m.out_next))); sim::count("model_live_message_right_after_logon"); }
			exchange();
			check_alive("after the logon exchange (counterparty Logon carried " + std::to_string(m.out_next - 1) + ")");
		};

		connect(false);
		for (size_t i = 0; i < p.ops.size() && r.v.empty(); ++i)
		{
			const Op& op = p.ops[i];
			if (op.k == "papp") m.send("D", Peer::order_body("P" + std::to_string(m.out_next)));
			else if (op.k == "padmin") m.send("0", {});
			else if (op.k == "app") { if (m.connected && w.alive()) w.app_send(w.next_app_id()); }
			else if (op.k == "silence") sim::advance(op.arg(0) * 1000000ll);
			else if (op.k == "cut_next_resend") m.cut_after = (int)op.arg(0);
			else if (op.k == "live_next_resend") m.live_before = (int)op.arg(0);
			else if (op.k == "live_after_logon") m.live_after_logon = (int)op.arg(0);
			else if (op.k == "disconnect") { if (m.connected) { m.connected = false; m.logged_on = false; ++disconnects; w.settle(); w.drop_connection(); sim::count("fault_disconnect"); } }
			else if (op.k == "reconnect") { if (!m.connected) { ++reconnects; connect(op.arg(0) != 0); sim::count(op.arg(0) ? "fault_session_restart" : "reconnect"); } }
			if (m.connected) { exchange(); check_alive("after op#" + std::to_string(i) + " " + op.k); }
		}
		// final fault-free stretch: link up, one more message from the counterparty so that any gap is noticed
		if (r.v.empty())
		{
			m.cut_after = -1;                                    // faults have stopped
			if (p.knob("final_reconnect") && w.alive())
			{
				// the history ends with a clean reconnect: the counterparty's Logon number is all the session gets to learn what it
				// missed, the reference counterparty replays whatever is asked for, nothing else is sent. That alone must recover.
				m.live_before = 0; m.live_after_logon = (int)p.knob("final_live_after_logon");
				if (m.connected) { m.connected = false; m.logged_on = false; ++disconnects; w.settle(); w.drop_connection(); }
				++reconnects; connect(false);
				if (r.v.empty() && w.ses && !w.ses->terminated())
				{
					w.collect();
					std::set<std::string> got; for (auto& d : w.deliv) got.insert(d.id); for (auto& d : w.ses->delivered) got.insert(d.id);
					for (auto& id : m.all_app_ids) if (!got.count(id)) { r.fail("not_recovered_by_logon_exchange", fam, "after a clean reconnect (counterparty Logon carried " + std::to_string(m.out_next - 1) + ") and the resend exchange, application message " + id + " is still undelivered although nothing else is outstanding (session expects " + std::to_string(w.ses->nrs()) + ", counterparty next " + std::to_string(m.out_next) + ")"); break; }
					if (r.v.empty() && w.ses->nrs() != m.out_next) r.fail("not_recovered_by_logon_exchange", fam, "after a clean reconnect (counterparty Logon carried " + std::to_string(m.out_next - 1) + ") and the resend exchange the session expects " + std::to_string(w.ses->nrs()) + " but the counterparty's next number is " + std::to_string(m.out_next));
					sim::count("final_clean_reconnect_judged");
				}
			}
			if (!m.connected) { ++reconnects; connect(false); }
			if (r.v.empty()) { m.send("D", Peer::order_body("FINAL")); exchange(); check_alive("in the final fault-free stretch"); }
			if (r.v.empty()) { sim::advance(50000000); exchange(); check_alive("in the final fault-free stretch"); }
			// a message that went out ahead of a resend answer leaves a gap that only the counterparty's next message reveals
			for (int k = 0; k < 3 && r.v.empty() && w.ses && !w.ses->terminated() && w.ses->nrs() != m.out_next; ++k)
			{ m.send("0", {}); exchange(); check_alive("in the final fault-free stretch"); sim::count("final_stretch_extra_heartbeat"); }
		}
		w.collect();
		if (r.v.empty())
		{
			std::set<std::string> got; for (auto& d : w.deliv) got.insert(d.id);
			if (w.ses) for (auto& d : w.ses->delivered) got.insert(d.id);
			for (auto& id : m.all_app_ids) if (!got.count(id)) { r.fail("app_message_never_delivered", fam, "application message " + id + " sent by the counterparty was never delivered (" + std::to_string(got.size()) + " of " + std::to_string(m.all_app_ids.size()) + " delivered; session expects " + std::to_string(w.ses->nrs()) + ", counterparty next " + std::to_string(m.out_next) + ")"); break; }
			if (r.v.empty() && w.ses->nrs() != m.out_next) r.fail("expected_number_diverged", fam, "after recovery the session expects " + std::to_string(w.ses->nrs()) + " but the counterparty's next number is " + std::to_string(m.out_next));
		}
		if (w.framing_error.size()) r.fail("wire_garbled", fam, w.framing_error);
		sim::count(("family_" + fam).c_str()); sim::count("model_resend_answers", m.resend_answers); sim::count("model_gapfills_sent", m.gapfills);
		r.nontrivial = m.all_app_ids.size() >= 2 && disconnects >= 1 && reconnects >= 1;
		r.sim_ns = sim::now_ns() - t0;
		w.teardown();
		drv::collect(r);
		sim::end();
		return r;
	}

	std::vector<Op> simpler(const Op& op) const override
	{
		std::vector<Op> v;
		if (op.k == "reconnect" && op.arg(0)) v.push_back(Op("reconnect", { 0 }));
		if (op.k == "silence") v.push_back(Op("silence", { 10 }));
		return v;
	}
	std::vector<std::pair<std::string, int64_t>> knob_floor() const override { return { { "short_read_pm", 0 }, { "short_write_pm", 0 }, { "eagain_pm", 0 }, { "dribble_pm", 0 }, { "pm", 0 }, { "pers", 1 }, { "final_reconnect", 0 }, { "final_live_after_logon", 0 } }; }
};

int main(int argc, char **argv)
{
	fx::global_init();
	C20 h;
	return drv::main_(argc, argv, h);
}
