// C21 — two fix8 sessions deliver every application message across failures: a real initiator and a real acceptor,
// each with Session + Connection + Timer + FilePersister (simulated disk), joined by a simulated TCP link; faults:
// link drops with bytes in flight lost, process restarts of either side between operations.
#include "sworld.hpp"

using namespace sw;

namespace {

struct Side
{
	std::string name, me, them, dir; bool initiator;
	Node *ses = nullptr; Connection *conn = nullptr; FilePersister *per = nullptr; SimSock *impl = nullptr; Poco::Net::StreamSocket *sock = nullptr;
	std::vector<Delivery> deliv; std::vector<std::string> sent; unsigned counter = 0; size_t harvested = 0;
	void harvest() { if (ses) { for (size_t i = harvested; i < ses->delivered.size(); ++i) deliv.push_back(ses->delivered[i]); harvested = ses->delivered.size(); } }
	void open_store() { per = new FilePersister; per->initialise(dir, name + ".db", false); }
	void new_session(int hb)
	{
		open_store();
		if (initiator) ses = new Node(name, UTEST::ctx(), SessionID(f8String("FIX.4.2"), f8String(me), f8String(them)), per);
		else ses = new Node(name, UTEST::ctx(), sender_comp_id(me), per);
		ses->set_login_parameters(login_params(hb, true)); harvested = 0;
	}
	void drop_conn() { if (!conn) return; ses->stop(); harvest(); delete conn; conn = nullptr; delete sock; sock = nullptr; impl = nullptr; }
	void destroy_session() { if (!ses) return; harvest(); delete ses; ses = nullptr; delete per; per = nullptr; }
	bool up() const { return ses && conn && !ses->terminated(); }
};

} // namespace

struct C21 : drv::Harness
{
	const char *id() const override { return "C21"; }
	int sched_retries() const override { return 3; }

	Plan generate(sim::Rng& rng, bool thorough) override
	{
		Plan p; drv::draw_sched_knobs(p, rng, true);
		World::draw_net_knobs(p, rng);
		p.knobs["hb"] = 30;
		p.knobs["lat_us"] = rng.pick(std::vector<int64_t>{ 50, 200, 1000, 5000 });
		int n = (int)rng.range(2, thorough ? 36 : 16);
		for (int i = 0; i < n; ++i)
		{
			int w = (int)rng.below(100);
			if (w < 30) p.ops.push_back(Op("sendA"));
			else if (w < 60) p.ops.push_back(Op("sendB"));
			else if (w < 72) p.ops.push_back(Op("drop", { rng.below(2) }));          // arg: drop right after the previous op (bytes still in flight) or after delivery
			else if (w < 79) p.ops.push_back(Op("restartA"));
			else if (w < 86) p.ops.push_back(Op("restartB"));
			else if (w < 88) p.ops.push_back(Op("refuse", { rng.range(1, 4) }));
			else if (w < 89) p.ops.push_back(Op("eager", { rng.range(1, 3) }));            // at the next reconnect: 1 initiator, 2 acceptor, 3 both send as soon as their own side is established
			else if (w < 92) p.ops.push_back(Op("send_in_replay", { rng.range(1, 3), rng.range(1, 80) }));   // at the next reconnect: an application send lands inside a resend answer (arg0: 1 initiator, 2 acceptor, 3 either; arg1: how many scheduling points into it)
			else if (w < 95) p.ops.push_back(Op("flaky_reconnect", { rng.range(0, 6), rng.below(2), rng.below(2) }));   // drop, reconnect, send at once (arg1: initiator, arg2: acceptor), drop again after arg0 x latency/2, reconnect       // the next reconnect finds the acceptor unreachable for this many connect attempts
			else p.ops.push_back(Op("silence", { rng.range(1, 2000) }));
		}
		return p;
	}

	Result run(const Plan& p, bool verbose) override
	{
		Result r;
		simfs::reset();
		sim::begin(drv::sim_config(p, verbose));
		const int64_t t0 = sim::now_ns(); const int hb = (int)p.knob("hb", 30); const int64_t lat = p.knob("lat_us", 200) * 1000;
		Side A{"A", "CLI", "SRV", "/simfs/A", true}, B{"B", "SRV", "CLI", "/simfs/B", false};
		Link link; NetCfg net; net.short_read = p.knob("short_read_pm") / 1000.0; net.short_write = p.knob("short_write_pm") / 1000.0; net.eagain = p.knob("eagain_pm") / 1000.0; net.dribble = p.knob("dribble_pm") / 1000.0; net.lat_ns = lat; net.jitter_ns = lat;
		uint64_t net_seed = (uint64_t)p.knob("net_seed", 1); int conn_no = 0; int reconnects = 0, drops = 0, restarts = 0; bool expect_down = false;
		int refuse_next = 0, eager_next = 0, inreplay_next = 0, inreplay_after = 0;
		bool replay_lost = false;   // a fault hit while the answer to a ResendRequest was still in flight
		size_t smark[2] = { 0, 0 };
		auto resend_in_progress = [&]() { bool rr = false; int k = 0; for (Side *x : { &A, &B }) { if (x->ses) for (size_t q = smark[k]; q < x->ses->states.size(); ++q) { int st = x->ses->states[q].second; if (st == States::st_resend_request_sent || st == States::st_resend_request_received) rr = true; } ++k; } return rr && link.pending > 0; };
		Poco::Net::SocketAddress addr("127.0.0.1", 5000);

		auto dump_wire = [&]()
		{
			if (!verbose) return;       // diagnostic only, printed outside the event log
			for (Side *x : { &A, &B }) if (x->impl)
			{
				std::vector<Msg> ms; std::string rest; split(x->impl->tx, ms, rest);
				for (auto& m : ms) fprintf(stderr, "  wire conn#%d %s wrote %s\n", conn_no, x->name.c_str(), m.brief().c_str());
			}
		};
		auto teardown_conns = [&]() { dump_wire(); A.drop_conn(); B.drop_conn(); B.destroy_session(); };
		auto both_continuous = [&]() { return A.ses && B.ses && A.ses->st() == States::st_continuous && B.ses->st() == States::st_continuous; };
		auto established = [&]() { return A.up() && B.up() && States::is_established(A.ses->st()) && States::is_established(B.ses->st()) && A.ses->st() != States::st_logon_received && B.ses->st() != States::st_logon_received; };
		bool connect_nowait = false;
		auto connect = [&]() -> bool
		{
			++conn_no;
			A.impl = new SimSock(net_seed + conn_no * 31); B.impl = new SimSock(net_seed + conn_no * 37 + 1); A.impl->cfg = B.impl->cfg = net; A.impl->name = "a"; B.impl->name = "b";
			link.join(A.impl, B.impl);
			A.sock = new Poco::Net::StreamSocket(A.impl); B.sock = new Poco::Net::StreamSocket(B.impl);
			B.new_session(hb);                                            // the acceptor creates a session instance per accepted connection
			B.conn = new ServerConnection(B.sock, addr, *B.ses, (unsigned)hb, pm_thread);
			B.ses->start(B.conn, false);
			if (!A.ses) A.new_session(hb);
			smark[0] = A.ses->states.size(); smark[1] = 0;
			A.impl->refuse_left = refuse_next; refuse_next = 0;
			A.conn = new ClientConnection(A.sock, addr, *A.ses, (unsigned)hb, pm_thread);
			// ClientConnection::connect() retries login_retries (3) times, sleeping login_retry_interval in between; if it
			// gives up, start() returns -1 and the application tries again with a new connection object
			for (int attempt = 0; A.ses->start(A.conn, false) < 0 && attempt < 3; ++attempt)
			{
				sim::count("initiator_start_failed_retrying");
				delete A.conn; A.conn = new ClientConnection(A.sock, addr, *A.ses, (unsigned)hb, pm_thread);
			}
			if (connect_nowait) return true;
			if (eager_next)
			{
				// application sends racing with the recovery: as soon as a side is established it sends, whatever the other does
				int who = eager_next; eager_next = 0;
				for (int k = 0; k < 2; ++k)
				{
					Side& sd = k == 0 ? A : B; if (!(who & (1 << k))) continue;
					sim::settle_until([&]() { return !sd.up() || (States::is_established(sd.ses->st()) && sd.ses->st() != States::st_logon_received); }, 200000000ll, 100000);
					if (!sd.up() || !States::is_established(sd.ses->st())) continue;
					std::string id = sd.name + std::to_string(++sd.counter);
					if (sd.ses->send(order(id))) { sd.sent.push_back(id); sim::count("send_racing_with_recovery"); }
				}
			}
			if (inreplay_next)
			{
				// an application thread sends while its session's inbound thread is in the middle of answering a ResendRequest
				int who = inreplay_next, after = inreplay_after, seen = 0; inreplay_next = 0;
				auto answering = [&](Side& sd) { return sd.up() && sd.ses->st() == States::st_resend_request_received; };
				if (sim::settle_watch([&]() { return (((who & 1) && answering(A)) || ((who & 2) && answering(B))) && ++seen >= after; }, 500000000ll))
				{
					Side& sd = (who & 1) && answering(A) ? A : B;
					std::string id = sd.name + std::to_string(++sd.counter);
					if (sd.ses->send(order(id))) { sd.sent.push_back(id); sim::count("send_inside_resend_answer"); }
				}
			}
			// bounded wait for both sides to be (re-)established: logon + any resend exchange
			bool ok = sim::settle_until([&]() { return both_continuous() || !A.up() || !B.up(); }, 3000000000ll, 1000000);   // (connect retries have already slept inside start())
			return ok && both_continuous();
		};
		auto why_down = [&]() -> std::string
		{
			std::string s;
			for (Side *x : { &A, &B }) if (x->ses) { s += x->name + " state " + state_name((int)x->ses->st()) + (x->ses->terminated() ? "(ended)" : "") + " next_send=" + std::to_string(x->ses->nss()) + " next_receive=" + std::to_string(x->ses->nrs()) + "; "; }
			return s;
		};
		auto supervise = [&](const std::string& when)
		{
			// the sessions must not end each other: a session that is down although no fault was injected is a violation
			if (!r.v.empty()) return;
			if ((!A.up() || !B.up()) && !expect_down)
			{ r.fail("sessions_terminated_each_other", replay_lost ? "replay_lost_in_flight" : conn_no > 1 ? "after_reconnect" : "first_connection", when + ": a session ended although no fault was injected since the last (re)connect: " + why_down()); return; }
		};
		auto reconnect = [&](const std::string& when)
		{
			teardown_conns();
			expect_down = false; ++reconnects;
			if (!connect()) { if (r.v.empty()) r.fail("not_reestablished", replay_lost ? "replay_lost_in_flight" : "reconnect", when + ": the sessions did not both reach continuous within 3 simulated seconds after reconnecting: " + why_down()); }
		};

		if (!connect()) r.fail("harness_first_logon_failed", "connect", why_down());
		for (size_t i = 0; i < p.ops.size() && r.v.empty(); ++i)
		{
			const Op& op = p.ops[i]; std::string when = "op#" + std::to_string(i) + " " + op.k;
			if (op.k == "sendA" || op.k == "sendB")
			{
				Side& s = op.k == "sendA" ? A : B;
				if (established()) { std::string id = s.name + std::to_string(++s.counter); if (s.ses->send(order(id))) s.sent.push_back(id); }
				else sim::count("send_skipped_not_established");
			}
			else if (op.k == "silence") sim::advance(op.arg(0) * 1000000ll);
			else if (op.k == "refuse") refuse_next = (int)op.arg(0);
			else if (op.k == "eager") eager_next = (int)op.arg(0);
			else if (op.k == "send_in_replay")
			{
				// both sides send, the link drops with those bytes in flight, and during the recovery after the reconnect an
				// application thread sends while its session's inbound thread is inside the resend answer
				for (Side *sd : { &A, &B }) if (established()) { std::string id = sd->name + std::to_string(++sd->counter); if (sd->ses->send(order(id))) sd->sent.push_back(id); }
				if (resend_in_progress()) { replay_lost = true; sim::count("probe_fault_while_replay_in_flight"); }
				link.drop(); expect_down = true; ++drops;
				sim::advance(2000000); sim::settle();
				inreplay_next = (int)op.arg(0); inreplay_after = (int)op.arg(1);
				reconnect(when);
			}
			else if (op.k == "drop")
			{
				if (op.arg(0)) { sim::advance(4 * lat + 1000000); sim::settle(); }
				if (resend_in_progress()) { replay_lost = true; sim::count("probe_fault_while_replay_in_flight"); }
				link.drop(); expect_down = true; ++drops;
				sim::advance(2000000); sim::settle();
				reconnect(when);
			}
			else if (op.k == "flaky_reconnect")
			{
				// a connection that dies during its logon exchange, with application messages sent right after start()
				sim::advance(4 * lat + 1000000); sim::settle();
				link.drop(); expect_down = true; ++drops; sim::advance(2000000); sim::settle();
				teardown_conns(); connect_nowait = true; connect(); connect_nowait = false; ++reconnects;
				for (int k = 0; k < 2; ++k)
				{
					Side& sd = k == 0 ? A : B; if (!op.arg(1 + k) || !sd.up()) continue;
					// an initiator has recovered its numbers and sent its Logon when start() returns; an acceptor must not send before
					// it has processed the Logon (its numbers are only recovered then)
					if (k == 1 && !States::is_established(sd.ses->st())) { sim::advance(2 * lat + 200000); sim::settle(); if (!sd.up() || !States::is_established(sd.ses->st())) continue; }
					std::string id = sd.name + std::to_string(++sd.counter);
					if (sd.ses->send(order(id))) { sd.sent.push_back(id); sim::count("send_during_logon_exchange"); }
				}
				sim::advance(op.arg(0) * lat / 2); sim::settle();
				if (resend_in_progress()) { replay_lost = true; sim::count("probe_fault_while_replay_in_flight"); }
				link.drop(); ++drops; sim::count("fault_drop_during_logon_exchange");
				sim::advance(2000000); sim::settle();
				reconnect(when);
			}
			else if (op.k == "restartA" || op.k == "restartB")
			{
				sim::advance(4 * lat + 1000000); sim::settle();                    // restarts happen between operations
				if (resend_in_progress()) { replay_lost = true; sim::count("probe_fault_while_replay_in_flight"); }
				++restarts; sim::count(op.k == "restartA" ? "fault_restart_initiator" : "fault_restart_acceptor");
				expect_down = true;
				teardown_conns();
				if (op.k == "restartA") A.destroy_session();
				reconnect(when);
			}
			if (op.k != "drop" && op.k != "send_in_replay" && op.k[0] != 'r' && op.k[0] != 'f') { sim::advance(rng_delay(i)); sim::settle(); }
			supervise(when);
		}
		// final phase: faults have stopped; give the pair bounded time to finish recovery
		if (r.v.empty())
		{
			if (!established()) reconnect("final phase");
			auto all_delivered = [&]()
			{
				A.harvest(); B.harvest();
				std::set<std::string> gb, ga; for (auto& d : B.deliv) gb.insert(d.id); for (auto& d : A.deliv) ga.insert(d.id);
				for (auto& id : A.sent) if (!gb.count(id)) return false;
				for (auto& id : B.sent) if (!ga.count(id)) return false;
				return true;
			};
			// a little traffic so that a gap left by the last fault is noticed
			if (established() && r.v.empty()) { A.ses->send(order("A" + std::to_string(++A.counter))); A.sent.push_back("A" + std::to_string(A.counter)); B.ses->send(order("B" + std::to_string(++B.counter))); B.sent.push_back("B" + std::to_string(B.counter)); }
			sim::settle_until(all_delivered, 5000000000ll, 2000000);
			supervise("final phase");
		}
		A.harvest(); B.harvest();
		if (r.v.empty())
		{
			auto judge = [&](Side& from, Side& to)
			{
				std::map<std::string, size_t> first; std::map<std::string, int> n;
				for (size_t k = 0; k < to.deliv.size(); ++k)
				{
					const Delivery& d = to.deliv[k];
					if (!n[d.id]++) first[d.id] = k;
					else if (!d.possdup) { r.fail("redelivery_without_possdup", from.name + "_to_" + to.name, "message " + d.id + " was delivered to " + to.name + " a second time without PossDupFlag"); return; }
				}
				size_t last = 0; bool have = false;
				for (auto& id : from.sent)
				{
					if (!first.count(id)) { r.fail("message_never_delivered", replay_lost ? "replay_lost_in_flight" : "other", "message " + id + " sent by " + from.name + " was never delivered to " + to.name + " (" + std::to_string(first.size()) + " of " + std::to_string(from.sent.size()) + " delivered); " + why_down()); return; }
					if (have && first[id] < last) { r.fail("first_deliveries_out_of_order", from.name + "_to_" + to.name, "message " + id + " was first delivered to " + to.name + " before a message " + from.name + " had sent earlier"); return; }
					last = first[id]; have = true;
				}
			};
			judge(A, B); judge(B, A);
		}
		sim::count("fault_link_drops", drops); sim::count("reconnects", reconnects); sim::count("app_messages_sent", (int64_t)(A.sent.size() + B.sent.size()));
		r.nontrivial = A.sent.size() + B.sent.size() >= 2 && drops + restarts >= 1;
		r.sim_ns = sim::now_ns() - t0;
		teardown_conns(); A.destroy_session();
		drv::collect(r);
		sim::end();
		return r;
	}
	static int64_t rng_delay(size_t i) { return 300000 + (int64_t)(i * 7919 % 5) * 400000; }

	std::vector<Op> simpler(const Op& op) const override
	{
		std::vector<Op> v;
		if (op.k == "silence" && op.arg(0) > 1) v.push_back(Op("silence", { 1 }));
		if (op.k == "drop" && op.arg(0) == 0) v.push_back(Op("drop", { 1 }));
		return v;
	}
	std::vector<std::pair<std::string, int64_t>> knob_floor() const override { return { { "short_read_pm", 0 }, { "short_write_pm", 0 }, { "eagain_pm", 0 }, { "dribble_pm", 0 }, { "lat_us", 50 } }; }
};

int main(int argc, char **argv)
{
	fx::global_init();
	C21 h;
	return drv::main_(argc, argv, h);
}
