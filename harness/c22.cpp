// C22 — heartbeat and test-request supervision follows the protocol: real Timer<Session> thread, heartbeat_service,
// handle_test_request, handle_heartbeat, FIXReader (stamps last-received), send_process (stamps last-sent) on the
// simulated clock; oracle over the timestamped wire log.
#include "sworld.hpp"

using namespace sw;

struct C22 : drv::Harness
{
	const char *id() const override { return "C22"; }
	int sched_retries() const override { return 3; }

	Plan generate(sim::Rng& rng, bool thorough) override
	{
		Plan p; drv::draw_sched_knobs(p, rng, true);
		World::draw_net_knobs(p, rng);
		p.knobs["initiator"] = rng.below(2);
		p.knobs["pm"] = rng.chance(0.85) ? pm_thread : pm_coro;
		p.knobs["pers"] = rng.below(2);
		int64_t H = thorough ? rng.pick(std::vector<int64_t>{ 1, 2, 3, 5, 7, 10, 15, 30, 60 }) : rng.pick(std::vector<int64_t>{ 1, 2, 3, 5, 6, 10 });
		p.knobs["hb"] = H;
		p.knobs["start_off_ms"] = rng.range(0, 999);
		const int64_t T20 = H + H / 5;
		int n = (int)rng.range(1, thorough ? 22 : 12);
		for (int i = 0; i < n; ++i)
		{
			int w = (int)rng.below(100);
			if (w < 40)
			{
				// waits around the interesting boundaries, or arbitrary
				int64_t base = rng.pick(std::vector<int64_t>{ H * 1000, (T20 + 1) * 1000, (T20 + 2) * 1000, 1000, 500, H * 500 });
				int64_t ms = rng.chance(0.6) ? base + rng.range(-30, 30) : rng.range(1, (T20 + 3) * 1000);
				p.ops.push_back(Op("wait", { std::max<int64_t>(ms, 1) }));
			}
			else if (w < 55) p.ops.push_back(Op("phb", { 0 }));
			else if (w < 65) p.ops.push_back(Op("phb", { 1 }));     // heartbeat carrying a TestReqID (answer to a pending test request)
			else if (w < 75) p.ops.push_back(Op("papp"));
			else if (w < 86) p.ops.push_back(Op("ptr", { rng.range(1, 999) }));
			else if (w < 88) p.ops.push_back(Op("ptr_gap", { rng.range(1, 999) }));
			else if (w < 90) p.ops.push_back(Op("papp_gap"));       // an application message one number too high; the peer never answers the ResendRequest: supervision must go on in that state   // a TestRequest right after a message of the peer was lost: it arrives one number too high
			else p.ops.push_back(Op("app"));
		}
		p.ops.push_back(Op("wait", { rng.range(1, (T20 + 3) * 2000) }));
		return p;
	}

	Result run(const Plan& p, bool verbose) override
	{
		Result r;
		simfs::reset();
		sim::begin(drv::sim_config(p, verbose));
		const int64_t t0 = sim::now_ns(); const int64_t S = 1000000000ll;
		World w; w.configure(p);
		const int64_t H = w.hb, T20 = H + H / 5;
		const int64_t HB_BOUND = H * S + 1100000000ll;                  // H + one supervision tick (1 s + timer granularity) + slack
		const int64_t TR_BOUND = (T20 + 1) * S + 1100000000ll;          // "more than H+20%" in whole seconds, + one tick + slack
		std::string fam = "H" + std::to_string(H);
		w.connect();
		if (!w.peer_logon()) r.fail("harness_logon_failed", fam, "no logon");
		const int64_t t_logon = sim::now_ns();
		std::vector<int64_t> recv_times{ t_logon };                    // instants at which a complete inbound message arrived
		struct PeerTR { std::string id; size_t out_mark; int64_t t; }; std::vector<PeerTR> peer_trs;
		struct PeerHB { int64_t t; int state_before; int state_after; bool gap_open; }; std::vector<PeerHB> peer_hbs; bool gap_open = false;
		int64_t t_end_obs = 0;

		for (size_t i = 0; i < p.ops.size() && !w.ses->terminated(); ++i)
		{
			const Op& op = p.ops[i];
			if (op.k == "wait") { sim::advance(op.arg(0) * 1000000ll); w.settle(); continue; }
			if (op.k == "app") { w.app_send(w.next_app_id()); w.settle(); continue; }
			w.settle();
			if (w.ses->terminated()) break;
			int st_before = (int)w.ses->st();
			if (op.k == "phb") w.peer.send_msg("0", op.arg(0) ? Flds{ {112, "TEST"} } : Flds{});
			else if (op.k == "papp_gap") { ++w.peer.out_seq; w.peer.send_msg("D", Peer::order_body("G" + std::to_string(w.peer.out_seq))); sim::count("probe_gap_left_open"); gap_open = true; }
			else if (op.k == "papp") w.peer.send_msg("D", Peer::order_body("P" + std::to_string(w.peer.out_seq)));
			else if (op.k == "ptr_gap")
			{
				// the peer's previous message (say a heartbeat) was lost: the TestRequest carries the expected number + 1; the session asks
				// for a resend and the peer fills the gap at once, as the protocol prescribes for lost administrative messages
				std::string id = "REQ" + std::to_string(op.arg(0)) + "-" + std::to_string(i); unsigned missing = w.peer.out_seq++; size_t mark = w.out.size();
				peer_trs.push_back(PeerTR{id, mark, sim::now_ns()}); w.peer.send_msg("1", { {112, id} });
				recv_times.push_back(sim::now_ns());
				w.settle();
				bool asked = false; for (size_t k = mark; k < w.out.size(); ++k) if (w.out[k].m.type() == "2") asked = true;
				if (asked) { w.peer.send(w.peer.make("4", missing, { {123, "Y"}, {36, std::to_string(w.peer.out_seq)} }, { {43, "Y"}, {122, utc_ts(sim::now_ns())} })); sim::count("probe_peer_test_request_after_gap"); }
			}
			else if (op.k == "ptr") { std::string id = "REQ" + std::to_string(op.arg(0)) + "-" + std::to_string(i); peer_trs.push_back(PeerTR{id, w.out.size(), sim::now_ns()}); w.peer.send_msg("1", { {112, id} }); }
			recv_times.push_back(sim::now_ns());
			w.settle();
			if (op.k == "phb") peer_hbs.push_back(PeerHB{sim::now_ns(), st_before, (int)w.ses->st(), gap_open});
		}
		w.settle();
		t_end_obs = sim::now_ns();
		// when did the session end (Logout on the wire / terminated)?
		int64_t t_logout = -1; size_t logout_idx = 0;
		for (auto& o : w.out) if (o.m.type() == "5") { t_logout = o.t; logout_idx = o.idx; break; }
		const bool ended = w.ses->terminated();
		const int64_t t_live_end = t_logout >= 0 ? t_logout : t_end_obs;   // supervision is judged up to here

		// (a) never silent for longer than H + tick
		{
			int64_t last = t_logon;
			for (auto& o : w.out) { if (o.t < t_logon) continue; if (o.t > t_live_end) break; if (o.t - last > HB_BOUND) { r.fail("heartbeat_late", fam, "nothing was sent between +" + std::to_string((last - t0) / 1000000) + "ms and +" + std::to_string((o.t - t0) / 1000000) + "ms (" + std::to_string((o.t - last) / 1000000) + " ms) with HeartBtInt=" + std::to_string(H) + "s"); break; } last = o.t; }
			if (r.v.empty() && t_live_end - last > HB_BOUND && !(ended && t_logout < 0)) r.fail("heartbeat_missing", fam, "nothing was sent after +" + std::to_string((last - t0) / 1000000) + "ms until +" + std::to_string((t_live_end - t0) / 1000000) + "ms with HeartBtInt=" + std::to_string(H) + "s");
		}
		// (b) receive silence longer than H+20% => TestRequest
		std::vector<std::pair<int64_t, size_t>> trs;   // test requests sent by the session (time, out index)
		for (auto& o : w.out) if (o.m.type() == "1") trs.emplace_back(o.t, o.idx);
		for (size_t k = 0; k < recv_times.size(); ++k)
		{
			int64_t from = recv_times[k], to = k + 1 < recv_times.size() ? recv_times[k + 1] : t_live_end;
			if (from > t_live_end) break; if (to > t_live_end) to = t_live_end;
			if (to - from <= TR_BOUND) continue;
			bool found = false; for (auto& t : trs) if (t.first > from && t.first <= from + TR_BOUND) found = true;
			if (!found) { r.fail("test_request_missing", fam, "nothing was received between +" + std::to_string((from - t0) / 1000000) + "ms and +" + std::to_string((to - t0) / 1000000) + "ms (H=" + std::to_string(H) + "s, H+20%=" + std::to_string(T20) + "s) but no TestRequest was sent within " + std::to_string(TR_BOUND / 1000000) + " ms"); break; }
			sim::count("probe_test_request_sent");
		}
		// (c) TestRequest unanswered for the same period => Logout + terminated
		for (auto& t : trs)
		{
			int64_t next_recv = -1; for (int64_t rt : recv_times) if (rt > t.first) { next_recv = rt; break; }
			int64_t until = next_recv >= 0 ? next_recv : t_end_obs;
			if (until - t.first > TR_BOUND)
			{
				if (t_logout < 0 || t_logout > t.first + TR_BOUND || !ended) { r.fail("timeout_logout_missing", fam, "TestRequest sent at +" + std::to_string((t.first - t0) / 1000000) + "ms stayed unanswered for " + std::to_string((until - t.first) / 1000000) + " ms but no Logout/termination followed within " + std::to_string(TR_BOUND / 1000000) + " ms"); break; }
				sim::count("probe_timeout_logout");
			}
		}
		// (d) inbound TestRequest answered by a Heartbeat with the same id
		for (auto& pt : peer_trs)
		{
			if (t_logout >= 0 && pt.t >= t_logout) continue;
			bool ok = false; for (size_t k = pt.out_mark; k < w.out.size(); ++k) if (w.out[k].m.type() == "0" && w.out[k].m.get(112) == pt.id) ok = true;
			if (!ok && !(ended && t_logout >= 0 && t_logout - pt.t < 1000000)) { r.fail("test_request_not_answered", fam, "peer TestRequest " + pt.id + " at +" + std::to_string((pt.t - t0) / 1000000) + "ms was not answered by a Heartbeat carrying that TestReqID"); break; }
			sim::count("probe_peer_test_request_answered");
		}
		// (e) inbound Heartbeat while a TestRequest is pending returns the session to normal operation
		for (auto& hb : peer_hbs)
			if (hb.state_before == States::st_test_request_sent)
			{
				sim::count("probe_heartbeat_while_test_request_pending");
				// (with a gap left open by the peer the Heartbeat itself is too high and the session goes back to asking for a resend)
				if (hb.gap_open ? hb.state_after == States::st_test_request_sent : hb.state_after != States::st_continuous) { r.fail("heartbeat_does_not_clear_test_request", fam, "Heartbeat received in state test_request_sent left the session in state " + std::string(state_name(hb.state_after))); break; }
			}
		// (f) a timeout Logout needs a TestRequest before it and no Heartbeat since
		if (t_logout >= 0 && w.out[logout_idx].m.get(58).find("ignored my test request") != std::string::npos)
		{
			int64_t last_tr = -1; for (auto& t : trs) if (t.first <= t_logout) last_tr = t.first;
			bool hb_since = false; for (auto& hb : peer_hbs) if (last_tr >= 0 && hb.t > last_tr && hb.t <= t_logout) hb_since = true;
			if (last_tr < 0) r.fail("timeout_logout_without_test_request", fam, "timeout Logout at +" + std::to_string((t_logout - t0) / 1000000) + "ms without a TestRequest before it");
			else if (hb_since) r.fail("timeout_logout_after_heartbeat", fam, "timeout Logout at +" + std::to_string((t_logout - t0) / 1000000) + "ms although a Heartbeat arrived after the TestRequest of +" + std::to_string((last_tr - t0) / 1000000) + "ms");
			else sim::count("probe_logout_one_tick_after_test_request", t_logout - last_tr < 2 * S ? 1 : 0);
		}
		if (w.framing_error.size()) r.fail("wire_garbled", fam, w.framing_error);
		sim::count(("family_" + fam).c_str());
		r.nontrivial = (t_end_obs - t_logon) > H * S && w.out.size() >= 2;
		r.sim_ns = sim::now_ns() - t0;
		w.teardown();
		drv::collect(r);
		sim::end();
		return r;
	}

	std::vector<Op> simpler(const Op& op) const override
	{
		std::vector<Op> v;
		if (op.k == "wait" && op.arg(0) > 200) { v.push_back(Op("wait", { op.arg(0) / 2 })); v.push_back(Op("wait", { op.arg(0) - op.arg(0) % 1000 })); }
		return v;
	}
	std::vector<std::pair<std::string, int64_t>> knob_floor() const override { return { { "short_read_pm", 0 }, { "short_write_pm", 0 }, { "eagain_pm", 0 }, { "dribble_pm", 0 }, { "pm", 0 }, { "start_off_ms", 0 } }; }
};

int main(int argc, char **argv)
{
	fx::global_init();
	C22 h;
	return drv::main_(argc, argv, h);
}
