// C23 — logon acceptance and CompID identity: real Session::handle_logon for both roles against a scripted peer;
// SessionID ==/!= enumerated directly (pure clause).
#include "sworld.hpp"

using namespace sw;

struct C23 : drv::Harness
{
	const char *id() const override { return "C23"; }
	int sched_retries() const override { return 2; }

	Plan generate(sim::Rng& rng, bool) override
	{
		Plan p; drv::draw_sched_knobs(p, rng, true);
		World::draw_net_knobs(p, rng);
		p.knobs["initiator"] = rng.below(2);
		p.knobs["pm"] = rng.chance(0.8) ? pm_thread : pm_coro;
		p.knobs["pers"] = rng.below(3);
		p.knobs["enforce"] = rng.chance(0.65);
		p.knobs["hb_cfg"] = rng.pick(std::vector<int64_t>{ 5, 30 });
		p.knobs["hb_logon"] = rng.pick(std::vector<int64_t>{ 1, 7, 30, 45, 600 });
		p.knobs["target_mode"] = rng.pick(std::vector<int64_t>{ 0, 0, 0, 1 });        // acceptor: 0 TargetCompID right, 1 wrong
		p.knobs["sender_mode"] = rng.pick(std::vector<int64_t>{ 0, 0, 0, 1 });        // initiator: response SenderCompID 0 right, 1 wrong
		p.knobs["resp_target_mode"] = rng.pick(std::vector<int64_t>{ 0, 0, 0, 1 });   // initiator: response TargetCompID
		p.knobs["clients"] = rng.pick(std::vector<int64_t>{ 0, 0, 1, 2, 3, 4 });       // 0 none, 1 listed, 2 not listed, 3 listed + right ip, 4 listed + wrong ip
		p.knobs["reset"] = rng.pick(std::vector<int64_t>{ 0, 0, 1, 2 });               // ResetSeqNumFlag absent / N / Y
		p.knobs["ctrl"] = rng.chance(0.4);                                             // stored control record present
		p.knobs["ctrl_s"] = rng.range(2, 40); p.knobs["ctrl_t"] = rng.range(2, 40);
		p.ops.push_back(Op("logon"));
		if (rng.chance(0.7)) p.ops.push_back(Op("app"));
		if (rng.chance(0.5)) p.ops.push_back(Op("papp"));
		return p;
	}

	Result run(const Plan& p, bool verbose) override
	{
		Result r;
		simfs::reset();
		sim::begin(drv::sim_config(p, verbose));
		int64_t t0 = sim::now_ns();
		World w; w.configure(p); w.hb = (int)p.knob("hb_cfg", 30);
		const bool ini = w.initiator; const int hb_logon = (int)p.knob("hb_logon", 30);
		const int clients = ini ? 0 : (int)p.knob("clients"), reset = ini ? 0 : (int)p.knob("reset");
		const bool target_bad = !ini && p.knob("target_mode") == 1;
		const bool resp_sender_bad = ini && p.knob("sender_mode") == 1, resp_target_bad = ini && p.knob("resp_target_mode") == 1;
		const bool ctrl = w.pers && p.knob("ctrl"); const unsigned cs = (unsigned)p.knob("ctrl_s"), ct = (unsigned)p.knob("ctrl_t");
		if (clients == 1 || clients >= 3) w.clients[w.peer_id] = Client("peer", clients == 3 ? Poco::Net::IPAddress("10.1.2.3") : clients == 4 ? Poco::Net::IPAddress("10.9.9.9") : Poco::Net::IPAddress());
		if (clients == 2) w.clients["SOMEONE"] = Client("other", Poco::Net::IPAddress());
		w.peer_ip = "10.1.2.3";
		if (ctrl) { w.per = w.open_persister(); w.per->put(cs, ct); }
		std::string fam = ini ? "initiator" : "acceptor";
		std::string desc = fam + (w.enforce ? " enforce_compids" : " no_enforcement");
		w.connect();
		w.settle();
		unsigned peer_seq = 1; long ses_logon_seq = -1;
		if (ini)
		{
			// the session's Logon is on the wire; it must carry the recovered send number
			for (auto& o : w.out) if (o.m.type() == "A") ses_logon_seq = o.m.num(34);
			if (ses_logon_seq != (ctrl ? (long)cs : 1)) r.fail("logon_seqnum", fam, desc + ": initiator Logon carries MsgSeqNum " + std::to_string(ses_logon_seq) + " expected " + std::to_string(ctrl ? cs : 1));
			peer_seq = ctrl ? ct : 1;
			w.peer.me = resp_sender_bad ? "STRANGER" : w.peer_id; w.peer.them = resp_target_bad ? "NOTYOU" : w.ses_id;
			desc += std::string(" response SenderCompID ") + (resp_sender_bad ? "wrong" : "right") + " TargetCompID " + (resp_target_bad ? "wrong" : "right");
		}
		else
		{
			peer_seq = reset == 2 ? 1 : ctrl ? ct : 1;
			w.peer.them = target_bad ? "NOTYOU" : w.ses_id;
			desc += std::string(" Logon TargetCompID ") + (target_bad ? "wrong" : "right") + " clients=" + std::to_string(clients) + " ResetSeqNumFlag=" + (reset == 2 ? "Y" : reset == 1 ? "N" : "absent") + (ctrl ? " stored control (" + std::to_string(cs) + "," + std::to_string(ct) + ")" : "");
		}
		w.peer.out_seq = peer_seq;
		Flds extra; if (reset) extra.push_back({141, reset == 2 ? "Y" : "N"});
		size_t omark = w.out.size();
		{ Flds b = { {98, "0"}, {108, std::to_string(hb_logon)} }; for (auto& x : extra) b.push_back(x); w.peer.send_msg("A", b); }
		w.settle();
		const bool cont = w.ses->st() == States::st_continuous; const bool term = w.ses->terminated();
		const Msg *ans = nullptr; for (size_t k = omark; k < w.out.size(); ++k) if (w.out[k].m.type() == "A") ans = &w.out[k].m;
		std::string got = std::string(" -> state ") + state_name((int)w.ses->st()) + (term ? " (ended)" : "") + (ans ? " answered Logon " + ans->brief() + " 108=" + ans->get(108) : " no Logon sent");
		if (ini)
		{
			const bool mismatch = resp_sender_bad || resp_target_bad;
			sim::count(mismatch ? (resp_sender_bad && resp_target_bad ? "ini_both_differ" : resp_sender_bad ? "ini_sender_differs" : "ini_target_differs") : "ini_mirror");
			if (w.enforce && mismatch && (cont || !term)) r.fail("mismatched_logon_accepted", std::string(resp_sender_bad && resp_target_bad ? "both" : resp_sender_bad ? "sender_only" : "target_only"), desc + got);
			if (!mismatch && !cont) r.fail("valid_logon_refused", fam, desc + got);
			if (!w.enforce && mismatch && !cont) sim::count("ini_mismatch_refused_without_enforcement");
		}
		else
		{
			const bool should = !(target_bad && w.enforce) && !(clients == 2 || clients == 4);
			sim::count(should ? "acc_should_accept" : "acc_should_refuse");
			if (!should)
			{
				if (cont) r.fail("invalid_logon_accepted", target_bad && w.enforce ? "wrong_target" : clients == 2 ? "not_listed" : "wrong_ip", desc + got);
				else if (ans) r.fail("logon_sent_on_refusal", fam, desc + got);
				else if (!term) r.fail("refused_but_not_terminated", fam, desc + got);
			}
			else
			{
				if (!cont) r.fail("valid_logon_refused", fam, desc + got);
				else
				{
					if (!ans) r.fail("no_logon_answer", fam, desc + got);
					else
					{
						if (ans->num(108) != hb_logon) r.fail("heartbtint_not_echoed", fam, desc + got + " (Logon asked for " + std::to_string(hb_logon) + ")");
						long want = reset == 2 ? 1 : ctrl ? (long)cs : 1;
						if (ans->num(34) != want) r.fail(reset == 2 ? "reset_not_applied" : "logon_seqnum", fam, desc + got + " (expected MsgSeqNum " + std::to_string(want) + ")");
						if (reset == 2 && (w.ses->nss() != 2 || w.ses->nrs() != 2)) r.fail("reset_not_applied", fam, desc + got + " afterwards next send/receive = " + std::to_string(w.ses->nss()) + "/" + std::to_string(w.ses->nrs()) + " expected 2/2");
					}
				}
			}
		}
		// a little traffic on an established session
		for (size_t i = 1; i < p.ops.size() && r.v.empty() && w.alive() && cont; ++i)
		{
			if (p.ops[i].k == "app") w.app_send(w.next_app_id());
			else if (p.ops[i].k == "papp") w.peer.send_msg("D", Peer::order_body("P1"));
			w.settle();
			if (p.ops[i].k == "papp" && !(resp_sender_bad || resp_target_bad || target_bad) && w.ses->delivered.empty()) r.fail("established_session_dead", fam, desc + ": an in-sequence application message was not delivered after logon");
		}

		// pure clause, enumerated directly: session identities compare unequal exactly when they are not equal
		static const char *ids[] = { "A", "B", "AB" };
		for (auto s1 : ids) for (auto t1 : ids) for (auto s2 : ids) for (auto t2 : ids)
		{
			SessionID a(f8String("FIX.4.2"), f8String(s1), f8String(t1)), b(f8String("FIX.4.2"), f8String(s2), f8String(t2));
			bool same = std::string(s1) == s2 && std::string(t1) == t2;
			if ((a == b) != same) r.fail("sessionid_equal", "operator==", std::string("SessionID(") + s1 + "->" + t1 + ") == SessionID(" + s2 + "->" + t2 + ") returned " + std::to_string(a == b));
			if ((a != b) != !same) r.fail("sessionid_unequal", std::string(s1) != s2 && std::string(t1) != t2 ? "both_differ" : "one_differs", std::string("SessionID(") + s1 + "->" + t1 + ") != SessionID(" + s2 + "->" + t2 + ") returned " + std::to_string(a != b));
			if (!(a == a) || (a != a)) r.fail("sessionid_equal", "self", "SessionID compared with itself");
		}
		r.nontrivial = true;
		r.sim_ns = sim::now_ns() - t0;
		w.teardown();
		drv::collect(r);
		sim::end();
		return r;
	}
	std::vector<std::pair<std::string, int64_t>> knob_floor() const override { return { { "short_read_pm", 0 }, { "short_write_pm", 0 }, { "eagain_pm", 0 }, { "dribble_pm", 0 }, { "pm", 0 }, { "pers", 0 }, { "ctrl", 0 }, { "clients", 0 }, { "reset", 0 } }; }
	bool keep_op(const Plan& p, size_t i) const override { return i == 0; }
};

int main(int argc, char **argv)
{
	fx::global_init();
	C23 h;
	return drv::main_(argc, argv, h);
}
