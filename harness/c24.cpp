// C24 — session activation follows the configured schedule: the real Schedule::test() walked along a virtual
// timeline of several weeks (simulated clock), compared at every step with an interval model; plus the pure
// decode_dow clause enumerated directly.
#include "fx.hpp"
#include <sstream>
#include <memory>

using namespace FIX8;
using drv::Op; using drv::Plan; using drv::Result;

namespace {

const int64_t S = 1000000000ll, MIN = 60 * S, HOUR = 60 * MIN, DAY = 24 * HOUR, WEEK = 7 * DAY;

// reference: is the (already utc-offset-adjusted) local instant inside the schedule?
bool ref_active(int64_t local, int64_t start, int64_t end, int sday, int eday)
{
	int64_t tod = ((local % DAY) + DAY) % DAY, day0 = local - tod;
	if (sday < 0) return tod >= start && tod <= end;
	// 1970-01-01 was a Thursday (4)
	int wday = (int)((((day0 / DAY) + 4) % 7 + 7) % 7);
	int len = (eday - sday + 7) % 7;                 // window spans len days after its start day (0 = same day)
	for (int back = 0; back <= len; ++back)
	{
		int sd = ((wday - back) % 7 + 7) % 7;
		if (sd != sday) continue;
		int64_t ws = day0 - back * DAY + start, we = ws - start + len * DAY + end;
		if (local >= ws && local <= we) return true;
	}
	return false;
}

int ref_dow(const std::string& in)
{
	if (in.empty()) return -1;
	std::string s; for (char c : in) s += (char)tolower((unsigned char)c);
	if (s.size() == 1 && s[0] >= '0' && s[0] <= '6') return s[0] - '0';
	static const char *names[] = { "su", "mo", "tu", "we", "th", "fr", "sa" };
	int cand = -1, n = 0;
	for (int i = 0; i < 7; ++i) if (names[i][0] == s[0]) { ++n; cand = i; }
	if (n == 0) return -1;
	if (n == 1) return cand;                          // unique one-letter prefix (m, w, f)
	if (s.size() < 2) return -1;
	for (int i = 0; i < 7; ++i) if (names[i][0] == s[0] && names[i][1] == s[1]) return i;
	return -1;
}

} // namespace

struct C24 : drv::Harness
{
	const char *id() const override { return "C24"; }

	Plan generate(sim::Rng& rng, bool thorough) override
	{
		Plan p; drv::draw_sched_knobs(p, rng, false);
		int64_t a = rng.range(0, 86399), b = rng.range(0, 86399);
		if (rng.chance(0.15)) a = rng.pick(std::vector<int64_t>{0, 1, 59, 60, 3600, 43200});
		if (rng.chance(0.15)) b = rng.pick(std::vector<int64_t>{86399, 86398, 86340, 82800, 43200});
		if (a > b) std::swap(a, b);
		if (b - a < 120) { if (a >= 120) a -= 120; else b += 120; }
		p.knobs["start_s"] = a; p.knobs["end_s"] = b;
		p.knobs["utc_off_min"] = rng.chance(0.3) ? 0 : rng.range(-720, 840);
		int kind = (int)rng.below(10);
		if (kind < 3) { p.knobs["sday"] = -1; p.knobs["eday"] = -1; }
		else
		{
			int sd = (int)rng.below(7), ed = kind < 5 ? sd : (int)rng.below(7);
			if ((ed - sd + 7) % 7 == 6 && b - a > 20 * 3600) ed = sd;   // keep an inactive stretch in every week
			p.knobs["sday"] = sd; p.knobs["eday"] = ed;
		}
		p.knobs["weeks"] = thorough ? rng.range(3, 5) : 3;
		p.knobs["step_seed"] = (int64_t)(rng.next() >> 2);
		p.knobs["start_off_ms"] = rng.range(0, 7 * 86400) * 1000;
		p.knobs["dow_check"] = rng.chance(0.02);
		// half of the schedules are built by the real Configuration::create_session_schedule() from XML text (weekday spelled as a
		// name or a digit, end_day left out when it equals start_day), the rest are constructed directly
		p.knobs["via_config"] = rng.chance(0.5);
		p.knobs["day_style"] = rng.below(3);          // 0 two-letter name, 1 digit, 2 capitalised name
		p.knobs["end_day_omitted"] = rng.chance(0.5);
		return p;
	}

	Result run(const Plan& p, bool verbose) override
	{
		Result r;
		sim::begin(drv::sim_config(p, verbose));
		const int64_t t0 = sim::now_ns();
		const int64_t start = p.knob("start_s") * S, end = p.knob("end_s") * S, off = p.knob("utc_off_min") * MIN;
		const int sday = (int)p.knob("sday", -1), eday = (int)p.knob("eday", -1);
		Schedule sch(Tickval(static_cast<Tickval::ticks>(start)), Tickval(static_cast<Tickval::ticks>(end)), Tickval(), (int)p.knob("utc_off_min"), sday, eday);
		if (p.knob("via_config"))
		{
			static const char *names[3][7] = { { "su", "mo", "tu", "we", "th", "fr", "sa" }, { "0", "1", "2", "3", "4", "5", "6" }, { "Su", "Mo", "Tu", "We", "Th", "Fr", "Sa" } };
			const int style = (int)p.knob("day_style") % 3;
			auto hms = [](int64_t sec) { char b[16]; snprintf(b, sizeof b, "%02d:%02d:%02d", (int)(sec / 3600), (int)(sec / 60 % 60), (int)(sec % 60)); return std::string(b); };
			std::ostringstream xml;
			xml << "<?xml version='1.0' encoding='ISO-8859-1'?>\n<fix8>\n<default role=\"acceptor\" fix_version=\"4200\" ip=\"0.0.0.0\" port=\"11001\"/>\n"
				<< "<session name=\"S1\" active=\"true\" sender_comp_id=\"A1\" schedule=\"sch1\"/>\n<schedule name=\"sch1\" start_time=\"" << hms(start / S) << "\" end_time=\"" << hms(end / S) << "\"";
			if (sday >= 0) { xml << " start_day=\"" << names[style][sday] << "\""; if (!(eday == sday && p.knob("end_day_omitted"))) xml << " end_day=\"" << names[style][eday] << "\""; }
			xml << " utc_offset_mins=\"" << p.knob("utc_off_min") << "\"/>\n</fix8>\n";
			std::istringstream istr(xml.str());
			Configuration conf(istr, true);
			const XmlElement *se = conf.get_session(0);
			std::unique_ptr<Session_Schedule> ss(se ? conf.create_session_schedule(se) : nullptr);
			if (!ss || !ss->_sch.is_valid()) r.fail("schedule_not_created", "via_config", "Configuration::create_session_schedule returned no valid schedule for: " + xml.str());
			else sch = ss->_sch;
			sim::count(sday >= 0 && eday == sday && p.knob("end_day_omitted") ? "config_weekly_end_day_omitted" : "config_schedule");
		}
		std::string kind = sday < 0 ? "daily" : sday == eday ? "weekly_same_day" : sday < eday ? "weekly_forward" : "weekly_wrap";

		// move to an instant where the schedule is inactive, start with prev = false
		int guard = 0;
		while (ref_active(sim::now_ns() + off, start, end, sday, eday) && guard++ < 20000) sim::advance(MIN);
		bool prev = false; sim::Rng steps((uint64_t)p.knob("step_seed", 1));
		const int64_t until = sim::now_ns() + p.knob("weeks", 3) * WEEK;
		long calls = 0, flips = 0; bool last = false;
		while (sim::now_ns() < until && r.v.empty())
		{
			bool want = ref_active(sim::now_ns() + off, start, end, sday, eday);
			bool got = sch.test(prev);
			++calls;
			if (got != last) { ++flips; last = got; sim::trace(std::string(got ? "active" : "inactive")); }
			if (got != want)
			{
				int64_t local = sim::now_ns() + off; time_t tt = (time_t)(local / S); struct tm tmv; gmtime_r(&tt, &tmv); char buf[64]; strftime(buf, sizeof buf, "%a %Y-%m-%d %H:%M:%S", &tmv);
				r.fail("schedule_mismatch", kind + (want ? ":expected_active" : ":expected_inactive"),
					kind + " schedule start=" + std::to_string(start / S) + "s end=" + std::to_string(end / S) + "s utc_offset=" + std::to_string(off / MIN) + "min start_day=" + std::to_string(sday) + " end_day=" + std::to_string(eday)
					+ ": at local " + buf + " test(prev=" + (prev ? "true" : "false") + ") returned " + (got ? "active" : "inactive") + ", the schedule says " + (want ? "active" : "inactive"));
			}
			prev = got;
			// checked at least once a minute; land exactly on the boundaries now and then
			int64_t step = steps.range(1, 60) * S;
			if (steps.chance(0.1)) step = steps.range(1, 59) * S + steps.range(0, 999999999);
			int64_t local = sim::now_ns() + off, tod = ((local % DAY) + DAY) % DAY;
			for (int64_t bnd : { start, end, end + 1, (int64_t)0 }) { int64_t d = (bnd - tod + DAY) % DAY; if (d > 0 && d <= step && steps.chance(0.5)) step = d; }
			sim::advance(step);
		}
		sim::count("test_calls", calls); sim::count("state_flips", flips); sim::count(("kind_" + kind).c_str());

		if (p.knob("dow_check"))
		{
			static const char alpha[] = "abcdefghijklmnopqrstuvwxyzABCDEFGHIJKLMNOPQRSTUVWXYZ0123456789 -";
			const int A = (int)sizeof(alpha) - 1; long n = 0;
			auto chk = [&](const std::string& s)
			{
				++n; int got = decode_dow(s), want = ref_dow(s);
				if (got != want) r.fail("decode_dow", want < 0 ? "accepts_invalid" : "wrong_day", "decode_dow(\"" + s + "\") returned " + std::to_string(got) + " expected " + std::to_string(want));
			};
			chk("");
			for (int i = 0; i < A; ++i) { chk(std::string(1, alpha[i])); for (int j = 0; j < A; ++j) { chk(std::string{alpha[i], alpha[j]}); for (int k = 0; k < A; ++k) chk(std::string{alpha[i], alpha[j], alpha[k]}); } }
			sim::count("decode_dow_strings_enumerated", n);
		}
		r.nontrivial = flips >= 2;
		r.sim_ns = sim::now_ns() - t0;
		drv::collect(r);
		sim::end();
		return r;
	}

	std::vector<std::pair<std::string, int64_t>> knob_floor() const override { return { { "utc_off_min", 0 }, { "start_off_ms", 0 }, { "weeks", 2 }, { "dow_check", 0 }, { "via_config", 0 }, { "day_style", 0 }, { "end_day_omitted", 0 } }; }
};

int main(int argc, char **argv)
{
	fx::global_init();
	C24 h;
	return drv::main_(argc, argv, h);
}
