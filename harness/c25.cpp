// C25 — concurrent senders get unique consecutive sequence numbers: 2-8 application tasks send through one real
// session (threaded or pipelined) while the reader thread (answering peer TestRequests) and the timer thread
// (heartbeats) send too; optionally a second session in the same process does the same.
#include "sworld.hpp"
#include <pthread.h>

using namespace sw;

namespace {

struct SendOp { int code; std::vector<std::string> ids; };           // 1 send(Message*), 2 send(Message&), 10+k batch of k
struct TArg { World *w; std::vector<SendOp> ops; };

void *sender(void *a)
{
	TArg *t = (TArg *)a;
	for (auto& op : t->ops)
	{
		if (op.code == 1) t->w->app_send(op.ids[0]);
		else if (op.code == 2) t->w->app_send_ref(op.ids[0]);
		else t->w->app_batch(op.ids);
		sim::trace("sent " + op.ids[0] + (op.ids.size() > 1 ? "..+" + std::to_string(op.ids.size() - 1) : ""));
	}
	return nullptr;
}

} // namespace

struct C25 : drv::Harness
{
	const char *id() const override { return "C25"; }
	int sched_retries() const override { return 12; }
	int abandoned = 0;

	Plan generate(sim::Rng& rng, bool thorough) override
	{
		Plan p; drv::draw_sched_knobs(p, rng, true);
		World::draw_net_knobs(p, rng);
		p.knobs["tweak_outbound"] = rng.chance(0.5);
		p.knobs["initiator"] = rng.below(2);
		p.knobs["pm"] = rng.chance(0.7) ? pm_thread : pm_pipeline;
		p.knobs["pers"] = rng.chance(0.5) ? 2 : 1;
		p.knobs["hb"] = rng.chance(0.3) ? 1 : 30;
		p.knobs["two_sessions"] = rng.chance(0.25);
		p.knobs["peer_tests"] = rng.chance(0.5) ? rng.range(1, 6) : 0;
		int nt = (int)rng.range(2, thorough ? 8 : 6);
		for (int i = 0; i < nt; ++i)
		{
			Op op("task"); int n = (int)rng.range(1, thorough ? 8 : 5);
			for (int k = 0; k < n; ++k) { int x = (int)rng.below(10); op.a.push_back(x < 5 ? 1 : x < 7 ? 2 : 10 + rng.range(2, 4)); }
			op.a.insert(op.a.begin(), p.knobs["two_sessions"] ? (int64_t)rng.below(2) : 0);   // which session
			p.ops.push_back(op);
		}
		return p;
	}

	// oracle for one session's wire + store
	void judge(World& w, const std::vector<TArg *>& args, const std::string& fam, Result& r, size_t skip_out)
	{
		if (w.framing_error.size()) { r.fail("wire_interleaved", fam, "the bytes written to the socket do not split into well-formed messages: " + w.framing_error); return; }
		std::map<std::string, int> seen; std::vector<const Msg *> news; std::map<std::string, size_t> pos;
		for (size_t k = skip_out; k < w.out.size(); ++k)
		{
			const Msg& m = w.out[k].m;
			if (m.possdup() || m.gapfill()) continue;
			news.push_back(&m);
			if (m.type() == "D") { ++seen[m.get(11)]; pos[m.get(11)] = news.size() - 1; }
		}
		for (size_t k = 1; k < news.size(); ++k)
			if (news[k]->num(34) != news[k - 1]->num(34) + 1)
			{ r.fail(news[k]->num(34) == news[k - 1]->num(34) ? "seqnum_duplicated" : "seqnum_not_consecutive", fam, "consecutive new messages on the wire carry MsgSeqNum " + std::to_string(news[k - 1]->num(34)) + " [" + news[k - 1]->brief() + "] then " + std::to_string(news[k]->num(34)) + " [" + news[k]->brief() + "]"); break; }
		for (auto *a : args) for (auto& op : a->ops)
		{
			for (auto& id : op.ids)
			{
				int n = seen.count(id) ? seen[id] : 0;
				if (n == 0) { r.fail("message_not_transmitted", fam, "application message " + id + " was sent but never appeared on the wire"); return; }
				if (n > 1) { r.fail("message_transmitted_twice", fam, "application message " + id + " appears " + std::to_string(n) + " times on the wire"); return; }
			}
			// (the statement does not require batch members to stay adjacent: in the pipelined model a single send from
			//  another thread can slip between them; counted as an observation only)
			for (size_t k = 1; k < op.ids.size(); ++k)
			{
				if (pos[op.ids[k]] < pos[op.ids[k - 1]]) { r.fail("batch_order_reversed", fam, "batch members " + op.ids[k - 1] + " and " + op.ids[k] + " went on the wire in reverse order"); return; }
				if (pos[op.ids[k]] != pos[op.ids[k - 1]] + 1) sim::count("observation_batch_interleaved_with_other_sender");
			}
		}
		if (w.per)
			for (auto *m : news)
			{
				if (m->type() != "D") continue;
				f8String got;
				if (!w.per->get((unsigned)m->num(34), got)) { r.fail("app_not_stored", fam, "no stored copy under MsgSeqNum " + std::to_string(m->num(34)) + " (" + m->get(11) + ")"); return; }
				if (got != m->raw) { r.fail("stored_differs_from_wire", fam, "stored copy under MsgSeqNum " + std::to_string(m->num(34)) + " is '" + fx::hex(got, 80) + "' but '" + fx::hex(m->raw, 80) + "' was transmitted"); return; }
			}
		// the same through a second persister instance opened on the same files (what a restart would find)
		if (auto dv = w.durable_view())
		{
			for (auto *m : news)
			{
				if (m->type() != "D") continue;
				f8String got;
				if (!dv->get((unsigned)m->num(34), got)) { r.fail("app_not_stored", fam + ":reopened", "a second persister instance opened on the same files has no copy under MsgSeqNum " + std::to_string(m->num(34)) + " (" + m->get(11) + ")"); return; }
				if (got != m->raw) { r.fail("stored_differs_from_wire", fam + ":reopened", "a second persister instance opened on the same files returns '" + fx::hex(got, 80) + "' under MsgSeqNum " + std::to_string(m->num(34)) + " but '" + fx::hex(m->raw, 80) + "' was transmitted"); return; }
			}
			sim::count("probe_durable_view_checked");
		}
		else if (w.pers == 2) r.fail("store_unreadable", fam, "a second persister instance cannot open the session's store files");
	}

	Result run(const Plan& p, bool verbose) override
	{
		Result r;
		simfs::reset();
		sim::begin(drv::sim_config(p, verbose));
		int64_t t0 = sim::now_ns();
		const bool two = p.knob("two_sessions") != 0; const int pm = (int)p.knob("pm");
		World *ws[2] = { new World, two ? new World : nullptr };
		for (int s = 0; s < 2; ++s) if (ws[s]) { ws[s]->configure(p); if (s == 1) { ws[s]->dir = "/simfs/ses2"; ws[s]->ses_id = "SES2"; ws[s]->peer_id = "PEER2"; ws[s]->net_seed += 99; } }
		std::string fam = std::string(pm == pm_pipeline ? "pipelined" : "threaded") + (two ? ":two_sessions" : "");
		size_t skip[2] = { 0, 0 };
		for (int s = 0; s < 2; ++s) if (ws[s]) { ws[s]->connect(); if (!ws[s]->peer_logon()) r.fail("harness_logon_failed", fam, "no logon"); skip[s] = 0; }

		std::vector<TArg *> args[2]; std::vector<TArg *> all; unsigned idn = 0; size_t total = 0;
		for (auto& op : p.ops)
		{
			int s = two ? (int)op.arg(0) : 0; TArg *a = new TArg; a->w = ws[s];
			for (size_t k = 1; k < op.a.size(); ++k)
			{
				int code = (int)op.a[k]; if (pm == pm_pipeline && code == 2) code = 1;       // send(Message&) is not permitted when pipelining
				SendOp so; so.code = code; int n = code >= 10 ? code - 10 : 1;
				for (int j = 0; j < n; ++j) so.ids.push_back("M" + std::to_string(++idn));
				total += n; a->ops.push_back(so);
			}
			args[s].push_back(a); all.push_back(a);
		}
		std::vector<pthread_t> th(all.size());
		for (size_t i = 0; i < all.size(); ++i) pthread_create(&th[i], nullptr, sender, all[i]);
		// meanwhile the peer keeps the reader thread sending too
		for (int k = 0; k < p.knob("peer_tests"); ++k) { for (int s = 0; s < 2; ++s) if (ws[s]) ws[s]->peer.send_msg("1", { {112, "CT" + std::to_string(k)} }); for (int y = 0; y < 5; ++y) sim::yield_point(); }
		for (size_t i = 0; i < all.size(); ++i) pthread_join(th[i], nullptr);
		sim::advance(pm == pm_pipeline ? 300000000 : 5000000);
		for (int s = 0; s < 2; ++s) if (ws[s]) { ws[s]->settle(); judge(*ws[s], args[s], fam, r, skip[s]); }

		sim::count(("family_" + fam).c_str()); sim::count("app_messages", (int64_t)total); sim::count("sender_tasks", (int64_t)all.size());
		r.nontrivial = all.size() >= 2 && total >= 3 && sim::preemptions() >= 6;
		r.sim_ns = sim::now_ns() - t0;
		if (pm == pm_pipeline)
		{
			drv::collect(r); sim::end();           // pipelined connections are never torn down (see DESIGN.md): abandon + recycle
			if (++abandoned >= 25) drv::request_recycle();
			return r;
		}
		for (int s = 0; s < 2; ++s) if (ws[s]) { ws[s]->teardown(); delete ws[s]; }
		for (auto a : all) delete a;
		drv::collect(r);
		sim::end();
		return r;
	}

	std::vector<Op> simpler(const Op& op) const override
	{
		std::vector<Op> v;
		if (op.a.size() > 2) { Op o = op; o.a.resize(1 + (op.a.size() - 1) / 2); v.push_back(o); o = op; o.a.resize(2); v.push_back(o); }
		bool alt = false; Op o = op; for (size_t k = 1; k < o.a.size(); ++k) if (o.a[k] != 1) { o.a[k] = 1; alt = true; } if (alt) v.push_back(o);
		return v;
	}
	std::vector<std::pair<std::string, int64_t>> knob_floor() const override { return { { "short_read_pm", 0 }, { "short_write_pm", 0 }, { "eagain_pm", 0 }, { "dribble_pm", 0 }, { "peer_tests", 0 }, { "hb", 30 }, { "pers", 1 } }; }
};

int main(int argc, char **argv)
{
	fx::global_init();
	C25 h;
	return drv::main_(argc, argv, h);
}
