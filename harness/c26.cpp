// C26 — persisters honour the store contract: real MemoryPersister / FilePersister (on the simulated file layer)
// against a reference map + one control record, compared operation by operation.
#include "fx.hpp"
#include "pmodel.hpp"

using namespace FIX8;
using drv::Op; using drv::Plan; using drv::Result;

struct C26 : drv::Harness
{
	const char *id() const override { return "C26"; }

	Plan generate(sim::Rng& rng, bool thorough) override
	{
		Plan p; drv::draw_sched_knobs(p, rng, false);
		p.knobs["kind"] = rng.below(2);
		int n = (int)rng.range(3, thorough ? 60 : 36);
		pm::gen_ops(p, rng, n, p.knobs["kind"] == 1, /*crashy*/false);
		return p;
	}

	Result run(const Plan& p, bool verbose) override
	{
		Result r;
		simfs::reset();
		sim::begin(drv::sim_config(p, verbose));
		int64_t t0 = sim::now_ns();
		{
			pm::World w(p.knob("kind") == 1, (unsigned)p.knob("rotnum", 0));
			w.open(false);
			size_t nput = 0, nread = 0;
			for (size_t i = 0; i < p.ops.size() && r.v.empty(); ++i)
			{
				const Op& op = p.ops[i];
				if (op.k == "put") ++nput; else if (op.k != "putc" && op.k != "reopen") ++nread;
				std::string why = w.apply(op);
				if (!why.empty())
				{
					std::string what = why.substr(0, why.find(':'));
					r.fail("store_contract", std::string(w.file ? "file:" : "mem:") + op.k + ":" + what, "op#" + std::to_string(i) + " " + op.k + " " + why);
				}
				sim::count(("op_" + op.k).c_str());
			}
			r.nontrivial = nput >= 2 && nread >= 1 && p.ops.size() >= 4;
			w.close();
		}
		r.sim_ns = sim::now_ns() - t0;
		drv::collect(r);
		sim::end();
		return r;
	}

	std::vector<Op> simpler(const Op& op) const override { return pm::simpler(op); }
};

int main(int argc, char **argv)
{
	fx::global_init();
	pm::World::shared_session();
	C26 h;
	return drv::main_(argc, argv, h);
}
