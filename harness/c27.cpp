// C27 — FilePersister survives process crashes: for each sampled op list, crash after EVERY completed file syscall
// (snapshot of the simulated disk), reopen from the snapshot, check durability/no-foreign-bytes/control record,
// then run a suffix of further ops with exact checking.
#include "fx.hpp"
#include "pmodel.hpp"

using namespace FIX8;
using drv::Op; using drv::Plan; using drv::Result;

struct C27 : drv::Harness
{
	const char *id() const override { return "C27"; }

	Plan generate(sim::Rng& rng, bool thorough) override
	{
		Plan p; drv::draw_sched_knobs(p, rng, false);
		p.knobs["only_crash"] = -1;
		unsigned dom = (unsigned)rng.range(2, 6); unsigned cid = 0;
		int n = (int)rng.range(1, thorough ? 14 : 10);
		auto seqno = [&]() -> int64_t { return rng.chance(0.05) ? 0 : rng.range(1, dom); };
		for (int i = 0; i < n; ++i)
		{
			int w = (int)rng.below(100);
			if (w < 50) p.ops.push_back(Op("put", { seqno(), rng.chance(0.1) ? 0 : rng.range(1, 20), (int64_t)++cid }));
			else if (w < 78) p.ops.push_back(Op("putc", { rng.range(1, 30), rng.range(1, 30) }));
			else if (w < 88) p.ops.push_back(Op("get", { seqno() }));
			else if (w < 94) p.ops.push_back(Op("reopen"));
			else p.ops.push_back(Op("getc"));
		}
		p.ops.push_back(Op("----"));
		int m = (int)rng.range(2, 6);
		for (int i = 0; i < m; ++i)
		{
			int w = (int)rng.below(100);
			if (w < 55) p.ops.push_back(Op("put", { rng.chance(0.6) ? rng.range(1, dom) : rng.range(dom + 1, dom + 3), rng.range(1, 20), (int64_t)++cid }));
			else if (w < 70) p.ops.push_back(Op("putc", { rng.range(1, 30), rng.range(1, 30) }));
			else if (w < 85) p.ops.push_back(Op("get", { rng.range(1, dom + 3) }));
			else p.ops.push_back(Op("reopen"));
		}
		return p;
	}

	// one execution with a crash after completed syscall number k (counted from the end of the first initialise);
	// k < 0: no crash. Returns false when k lies beyond the last syscall of the prefix.
	bool one(const Plan& p, long k, Result& r)
	{
		simfs::reset();
		pm::World w(true, 0); w.verify_after_put = false;
		if (!w.open(false)) { r.fail("open_failed", "initial", "initialise failed on an empty directory"); return false; }
		size_t split = p.ops.size();
		for (size_t i = 0; i < p.ops.size(); ++i) if (p.ops[i].k == "----") { split = i; break; }

		const uint64_t base = simfs::syscalls();
		bool crashed = false; simfs::Disk snap;
		simfs::after_call = [&](uint64_t n, const char *) { if (!crashed && k >= 0 && n - base == (uint64_t)k) { crashed = true; snap = simfs::snapshot(); } };
		if (k == 0) { crashed = true; snap = simfs::snapshot(); }

		std::map<unsigned, std::string> acked; bool a_has = false; unsigned a_cs = 0, a_ct = 0; const Op *interrupted = nullptr;
		for (size_t i = 0; i < split; ++i)
		{
			acked = w.model; a_has = w.has_ctrl; a_cs = w.cs; a_ct = w.ct;   // state acknowledged before this op starts
			if (crashed) break;
			std::string why = w.apply(p.ops[i]);
			if (crashed) { interrupted = &p.ops[i]; break; }
			if (!why.empty())
			{
				r.fail("no_crash_mismatch", p.ops[i].k + ":" + why.substr(0, why.find(':')), "before any crash, op#" + std::to_string(i) + " " + why);
				simfs::after_call = nullptr; return false;
			}
			acked = w.model; a_has = w.has_ctrl; a_cs = w.cs; a_ct = w.ct;
		}
		simfs::after_call = nullptr;
		if (k >= 0 && !crashed) return false;
		sim::count(k >= 0 ? (interrupted ? "crash_inside_op" : "crash_between_ops") : "no_crash_run");
		std::string at = k < 0 ? "no crash" : "crash after syscall " + std::to_string(k) + (interrupted ? " inside " + interrupted->k : " between ops");

		// the process dies: only the disk survives
		w.close();
		if (k >= 0) simfs::restore(snap);
		w.model = acked; w.has_ctrl = a_has; w.cs = a_cs; w.ct = a_ct;
		if (!w.open(false)) { r.fail("reopen_failed", "initialise", at + ": initialise after crash failed"); return true; }

		// completed stores are returned byte-identical
		for (auto& kv : acked)
		{
			f8String out;
			if (!w.ps->get(kv.first, out)) { r.fail("completed_store_lost", "get_fails", at + ": seq " + std::to_string(kv.first) + " was stored (put returned) but is not retrievable after reopen"); return true; }
			if (out != kv.second) { r.fail("completed_store_corrupt", "wrong_bytes", at + ": seq " + std::to_string(kv.first) + " returned '" + fx::hex(out) + "' stored '" + fx::hex(kv.second) + "'"); return true; }
		}
		// no number returns bytes never stored for it
		unsigned iseq = 0; std::string ibytes;
		if (interrupted && interrupted->k == "put") { iseq = (unsigned)interrupted->arg(0); ibytes = pm::content(iseq, (unsigned)interrupted->arg(1), (unsigned)interrupted->arg(2)); }
		for (unsigned s = 0; s <= 12; ++s)
		{
			if (acked.count(s)) continue;
			f8String out; bool g = w.ps->get(s, out);
			if (!g) continue;
			if (s == iseq && iseq && out == ibytes) { w.model[s] = ibytes; continue; }   // the interrupted put made it: fine
			r.fail("foreign_bytes", s == iseq ? "interrupted_put" : "never_stored", at + ": get(" + std::to_string(s) + ") returned '" + fx::hex(out) + "' which was never stored under that number"
				+ (s == iseq ? " (interrupted put carried '" + fx::hex(ibytes) + "')" : ""));
			return true;
		}
		// control record = last completed control store (the interrupted one may be old or new)
		{
			unsigned s = 0, t = 0; bool g = w.ps->get(s, t);
			bool ok_old = (g == a_has) && (!g || (s == a_cs && t == a_ct));
			bool ok_new = interrupted && interrupted->k == "putc" && g && s == (unsigned)interrupted->arg(0) && t == (unsigned)interrupted->arg(1);
			if (!ok_old && !ok_new)
			{
				r.fail("control_record_wrong", g ? "value" : "missing", at + ": control record after reopen is " + (g ? "(" + std::to_string(s) + "," + std::to_string(t) + ")" : std::string("absent"))
					+ " expected " + (a_has ? "(" + std::to_string(a_cs) + "," + std::to_string(a_ct) + ")" : std::string("absent")));
				return true;
			}
			w.has_ctrl = g; w.cs = s; w.ct = t;
		}
		// further stores after reopening remain retrievable (exact checking from the observed state)
		for (size_t i = split + 1; i < p.ops.size(); ++i)
		{
			std::string why = w.apply(p.ops[i]);
			if (!why.empty()) { r.fail("post_crash_store", p.ops[i].k + ":" + why.substr(0, why.find(':')), at + ": then op#" + std::to_string(i) + " " + why); return true; }
		}
		std::string why = w.audit("final");
		if (!why.empty()) r.fail("post_crash_store", "audit:" + why.substr(0, why.find(':')), at + ": final audit " + why);
		for (unsigned s = 0; s <= 12 && r.v.empty(); ++s)
		{
			if (w.model.count(s)) continue;
			f8String out;
			if (w.ps->get(s, out)) r.fail("foreign_bytes", "after_further_stores", at + ": after further stores get(" + std::to_string(s) + ") returned '" + fx::hex(out) + "' which was never stored under that number");
		}
		return true;
	}

	Result run(const Plan& p, bool verbose) override
	{
		Result r;
		sim::begin(drv::sim_config(p, verbose));
		int64_t t0 = sim::now_ns();
		long only = (long)p.knob("only_crash", -1);
		long points = 0;
		one(p, -1, r);   // fault-free pass first
		if (r.v.empty())
		{
			if (only >= 0) { if (one(p, only, r)) ++points; }
			else for (long k = 0;; ++k) { if (!one(p, k, r)) break; ++points; if (!r.v.empty()) break; }
		}
		sim::count("evals", points + 1);
		sim::count("crash_points", points);
		size_t nput = 0, nputc = 0; for (auto& op : p.ops) { if (op.k == "----") break; if (op.k == "put") ++nput; if (op.k == "putc") ++nputc; }
		r.nontrivial = points >= 8 && nput >= 1 && nputc >= 1;
		r.sim_ns = sim::now_ns() - t0;
		drv::collect(r);
		sim::end();
		return r;
	}

	std::vector<Op> simpler(const Op& op) const override { return pm::simpler(op); }
	bool keep_op(const Plan& p, size_t i) const override { return p.ops[i].k == "----"; }
};

int main(int argc, char **argv)
{
	fx::global_init();
	pm::World::shared_session();
	C27 h;
	return drv::main_(argc, argv, h);
}
