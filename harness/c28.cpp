// C28 — loggers write every accepted line exactly once, in order: real Logger (enqueue/send/stop/operator()/
// process_logline, FastFlow queue, logger thread) with only get_stream() overridden to capture into memory.
#include "fx.hpp"
#include <pthread.h>
#include <sstream>

using namespace FIX8;
using drv::Op; using drv::Plan; using drv::Result;

namespace {

struct CapLogger : Logger
{
	mutable std::ostringstream cap;
	CapLogger(LogFlags f, Levels l) : Logger(f, l) {}
	std::ostream& get_stream() const override { return cap; }
};

struct Sub { int prod, n; bool enabled, api_enqueue, ret, before_stop; };

struct World
{
	CapLogger *lg = nullptr; bool stop_entered = false;
	std::vector<std::vector<Sub>> subs;
};

struct TArg { World *w; int prod; std::vector<int> levels; };   // per line: 0 enabled via send, 1 enabled via enqueue, 2 disabled via send

void *producer(void *a)
{
	TArg *t = (TArg *)a; World& w = *t->w;
	for (size_t i = 0; i < t->levels.size(); ++i)
	{
		std::string line = "p" + std::to_string(t->prod) + "-" + std::to_string(i);
		Sub s{t->prod, (int)i, t->levels[i] != 2, t->levels[i] == 1, false, false};
		if (t->levels[i] == 2) s.ret = w.lg->send(line, Logger::Debug);
		else if (t->levels[i] == 1) s.ret = w.lg->enqueue(line, Logger::Info);
		else s.ret = w.lg->send(line, Logger::Error);
		s.before_stop = !w.stop_entered;       // the submit call returned before stop() was entered
		w.subs[t->prod].push_back(s);
		sim::trace("submit " + line + " ret=" + std::to_string(s.ret));
	}
	return nullptr;
}

std::vector<std::pair<long, std::string>> parse(const std::string& out, std::vector<std::string>& bad)
{
	std::vector<std::pair<long, std::string>> v; std::istringstream is(out); std::string l;
	while (std::getline(is, l))
	{
		size_t sp = l.find(' ');
		if (sp == std::string::npos || sp == 0) { bad.push_back(l); continue; }
		v.emplace_back(atol(l.substr(0, sp).c_str()), l.substr(sp + 1));
	}
	return v;
}

} // namespace

struct C28 : drv::Harness
{
	const char *id() const override { return "C28"; }
	int sched_retries() const override { return 10; }

	Plan generate(sim::Rng& rng, bool thorough) override
	{
		Plan p; drv::draw_sched_knobs(p, rng, true);
		int np = (int)rng.range(1, 8);
		p.knobs["stop_mode"] = rng.below(3);          // 0 join producers then stop at once; 1 stop after K driver yields; 2 stop after a simulated delay
		p.knobs["stop_yields"] = rng.range(0, 120);
		p.knobs["stop_delay_us"] = rng.range(0, 900);
		for (int i = 0; i < np; ++i)
		{
			int n = (int)rng.range(1, thorough ? 30 : 12);
			Op op("prod");
			for (int k = 0; k < n; ++k) { int x = (int)rng.below(10); op.a.push_back(x < 5 ? 0 : x < 8 ? 1 : 2); }
			p.ops.push_back(op);
		}
		return p;
	}

	Result run(const Plan& p, bool verbose) override
	{
		Result r;
		World *w = new World;
		sim::begin(drv::sim_config(p, verbose));
		int64_t t0 = sim::now_ns();
		w->lg = new CapLogger(Logger::LogFlags() << Logger::sequence, Logger::Levels() << Logger::Info << Logger::Error);
		std::vector<TArg *> args;
		for (auto& op : p.ops) { TArg *a = new TArg; a->w = w; a->prod = (int)args.size(); for (auto x : op.a) a->levels.push_back((int)x); args.push_back(a); w->subs.emplace_back(); }
		std::vector<pthread_t> th(args.size());
		for (size_t i = 0; i < args.size(); ++i) pthread_create(&th[i], nullptr, producer, args[i]);
		int mode = (int)p.knob("stop_mode");
		if (mode == 0) for (size_t i = 0; i < args.size(); ++i) pthread_join(th[i], nullptr);
		else if (mode == 1) for (int k = 0; k < p.knob("stop_yields"); ++k) sim::yield_point();
		else sim::advance(p.knob("stop_delay_us") * 1000);
		w->stop_entered = true;
		sim::trace("stop()");
		w->lg->stop();
		std::string at_stop = w->lg->cap.str();
		sim::trace("stop returned, bytes=" + std::to_string(at_stop.size()));
		if (mode != 0) for (size_t i = 0; i < args.size(); ++i) pthread_join(th[i], nullptr);
		std::string final_out = w->lg->cap.str();

		std::vector<std::string> bad;
		auto lines = parse(at_stop, bad), all = parse(final_out, bad);
		for (auto& b : bad) r.fail("garbled_line", "logger", "unparsable output line '" + fx::hex(b) + "'");
		std::map<std::string, int> count_stop, count_all;
		for (auto& l : lines) ++count_stop[l.second];
		for (auto& l : all) ++count_all[l.second];
		long must = 0;
		for (auto& pv : w->subs) for (auto& s : pv)
		{
			std::string line = "p" + std::to_string(s.prod) + "-" + std::to_string(s.n);
			if (!s.enabled) { if (count_all.count(line)) r.fail("disabled_written", "logger", "line " + line + " submitted at a disabled level was written"); continue; }
			if (s.before_stop)
			{
				++must;
				if (!count_stop.count(line)) r.fail("line_lost", mode == 0 ? "stop_after_last_send" : "stop_midway", "line " + line + " was submitted (call returned) before stop() but is not in the output when stop() returned");
				if (!s.ret) r.fail("submit_reports_failure", s.api_enqueue ? "enqueue" : "send", std::string(s.api_enqueue ? "enqueue" : "send") + "() returned false for line " + line + " which was accepted");
			}
			if (count_all.count(line) && count_all[line] > 1) r.fail("line_duplicated", "logger", "line " + line + " written " + std::to_string(count_all[line]) + " times");
		}
		for (auto& kv : count_all) if (kv.first.size() < 3 || kv.first[0] != 'p') r.fail("garbled_line", "logger", "unexpected output text '" + fx::hex(kv.first) + "'");
		// per producer order + consecutive sequence numbers
		std::map<int, int> last; long prev = 0;
		for (auto& l : all)
		{
			if (l.first != prev + 1) r.fail("sequence_gap", "logger", "sequence field " + std::to_string(l.first) + " follows " + std::to_string(prev) + " (line '" + l.second + "')");
			prev = l.first;
			int pr = atoi(l.second.c_str() + 1); size_t d = l.second.find('-'); int n = d == std::string::npos ? -1 : atoi(l.second.c_str() + d + 1);
			auto it = last.find(pr);
			if (it != last.end() && it->second >= n) r.fail("producer_order", "logger", "line " + l.second + " written after line #" + std::to_string(it->second) + " of the same producer");
			last[pr] = n;
		}
		sim::count("lines_must_appear", must); sim::count("lines_written", (int64_t)all.size());
		sim::count(mode == 0 ? "stop_right_after_last_send" : mode == 1 ? "stop_midway_yields" : "stop_midway_delay");
		r.nontrivial = must >= 2;
		r.sim_ns = sim::now_ns() - t0;
		delete w->lg;
		drv::collect(r);
		sim::end();
		for (auto a : args) delete a;
		delete w;
		return r;
	}

	std::vector<Op> simpler(const Op& op) const override
	{
		std::vector<Op> v;
		if (op.a.size() > 1) { Op o = op; o.a.resize(op.a.size() / 2); v.push_back(o); o = op; o.a.resize(1); v.push_back(o); }
		bool alt = false; Op o = op; for (auto& x : o.a) if (x != 0) { x = 0; alt = true; } if (alt) v.push_back(o);
		return v;
	}
	std::vector<std::pair<std::string, int64_t>> knob_floor() const override { return { { "stop_mode", 0 }, { "stop_yields", 0 }, { "stop_delay_us", 0 } }; }
};

int main(int argc, char **argv)
{
	fx::global_init();
	C28 h;
	return drv::main_(argc, argv, h);
}
