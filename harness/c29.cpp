// C29 — log and store rotation keeps generations and stays in bounds: real FileLogger::rotate (through std::ofstream on
// a private real scratch directory, rename/access calls recorded by the wrappers) and FilePersister::initialise(purge)
// on the simulated file layer, against a reference model of generations.
#include "fx.hpp"
#include <dirent.h>
#include <sys/stat.h>
#include <fstream>
#include <sstream>
#include <set>

using namespace FIX8;
using drv::Op; using drv::Plan; using drv::Result;

namespace {

std::string g_dir;

std::string slurp(const std::string& f) { std::ifstream i(f, std::ios::binary); std::stringstream ss; ss << i.rdbuf(); return ss.str(); }
void spit(const std::string& f, const std::string& c) { std::ofstream o(f, std::ios::binary | std::ios::trunc); o << c; }
std::map<std::string, std::string> list_real(const std::string& dir)
{
	std::map<std::string, std::string> m;
	if (DIR *d = opendir(dir.c_str())) { while (dirent *e = readdir(d)) { std::string n = e->d_name; if (n != "." && n != "..") m[n] = slurp(dir + "/" + n); } closedir(d); }
	return m;
}
void clean_real(const std::string& dir) { for (auto& kv : list_real(dir)) ::remove((dir + "/" + kv.first).c_str()); }

// reference model: sequential shift of existing generations, cap at 1024
void model_rotate(std::map<std::string, std::string>& files, const std::vector<std::string>& gen /* gen[0]=name, gen[k]=name.k */, unsigned r)
{
	unsigned cap = std::min<unsigned>(r, 1024);
	for (unsigned k = cap; k >= 1; --k)
	{
		auto it = files.find(gen[k - 1]);
		if (it != files.end()) { files[gen[k]] = it->second; files.erase(gen[k - 1]); }
	}
}

} // namespace

struct C29 : drv::Harness
{
	const char *id() const override { return "C29"; }

	Plan generate(sim::Rng& rng, bool thorough) override
	{
		Plan p; drv::draw_sched_knobs(p, rng, false);
		static const std::vector<int64_t> special = { 0, 1, 2, 3, 5, 1023, 1024, 1025, 1100 };
		int64_t r = rng.chance(0.6) ? rng.pick(special) : rng.chance(0.7) ? rng.range(0, 12) : rng.range(0, 1100);
		p.knobs["rotnum"] = r;
		p.knobs["target"] = rng.below(3) == 0;      // 0 = file logger, 1 = file persister purge
		p.knobs["append"] = rng.chance(0.3);
		p.knobs["compress"] = rng.chance(0.15);     // file logger with the compress flag: generations are called name.k.gz (in this build the live file stays plain)
		// pre-existing generations (k = 0 is the live file) and decoys
		std::set<int64_t> g;
		int n = (int)rng.range(0, 7);
		for (int i = 0; i < n; ++i) g.insert(rng.chance(0.8) ? rng.range(0, std::min<int64_t>(r + 2, 9)) : rng.pick(std::vector<int64_t>{ 1022, 1023, 1024, 1025, 1026, 1099, 1100, 1101 }));
		// (file store) a generation may be incomplete: 1 = data file only, 2 = index file only (interrupted earlier purge, removed file)
		for (auto k : g) p.ops.push_back(Op("gen", { k, rng.chance(0.7) ? 0 : (int64_t)rng.range(1, 2) }));
		if (rng.chance(0.5)) p.ops.push_back(Op("decoy", { rng.range(0, 3) }));
		int m = (int)rng.range(0, thorough ? 4 : 2);
		for (int i = 0; i < m; ++i) p.ops.push_back(Op(rng.chance(0.6) ? "rotate_force" : "rotate"));
		return p;
	}

	Result run(const Plan& p, bool verbose) override
	{
		Result r;
		const unsigned rot = (unsigned)p.knob("rotnum"); const bool persister = p.knob("target") == 1, append = p.knob("append") != 0;
		const unsigned cap = std::min<unsigned>(rot, 1024);
		simfs::reset(); simfs::record_calls = true; simfs::call_log().clear();
		sim::begin(drv::sim_config(p, verbose));
		int64_t t0 = sim::now_ns();
		const std::string dir = persister ? "/simfs/rot" : g_dir, base = persister ? "store.db" : "app.log";
		std::vector<std::string> gen, gen_idx; // names relative to dir
		gen.push_back(base); gen_idx.push_back(base + ".idx");
		const bool compress = !persister && p.knob("compress") != 0;
		for (unsigned k = 1; k <= 1102; ++k) { gen.push_back(base + "." + std::to_string(k) + (compress ? ".gz" : "")); gen_idx.push_back(base + "." + std::to_string(k) + ".idx"); }
		std::map<std::string, std::string> model;
		if (!persister) clean_real(dir);
		auto put_file = [&](const std::string& name, const std::string& content)
		{
			model[name] = content;
			if (persister) { simfs::Disk d = simfs::snapshot(); d[dir + "/" + name] = content; simfs::restore(d); }
			else spit(dir + "/" + name, content);
		};
		int rotations_done = 0;
		for (auto& op : p.ops)
		{
			if (op.k == "gen")
			{
				unsigned k = (unsigned)op.arg(0);
				const int part = persister ? (int)op.arg(1) : 0;
				if (part != 2) put_file(gen[k], "generation " + std::to_string(k) + " of " + base + "\n");
				if (persister && part != 1) put_file(gen_idx[k], "index " + std::to_string(k));
				if (part) sim::count("incomplete_generation");
			}
			else if (op.k == "decoy")
			{
				static const char *dn[] = { ".x", ".1x", "2", ".bak" };
				put_file(base + dn[op.arg(0) % 4], "decoy"); put_file(std::string("other.log.1"), "decoy-other");
			}
		}
		simfs::call_log().clear();
		std::set<std::string> allowed;   // names rotation may touch
		for (unsigned k = 0; k <= cap; ++k) { allowed.insert(dir + "/" + gen[k]); if (persister) allowed.insert(dir + "/" + gen_idx[k]); }

		auto expect_rotation = [&]()
		{
			model_rotate(model, gen, rot);
			if (persister) model_rotate(model, gen_idx, rot);
			++rotations_done;
		};
		auto compare = [&](const char *when)
		{
			std::map<std::string, std::string> got;
			if (persister) { for (auto& kv : simfs::disk()) if (kv.first.compare(0, dir.size() + 1, dir + "/") == 0) got[kv.first.substr(dir.size() + 1)] = kv.second; }
			else got = list_real(dir);
			for (auto& kv : model)
			{
				if (kv.first == base || kv.first == base + ".idx") continue;      // the live file is (re)written by the logger/persister
				auto it = got.find(kv.first);
				if (it == got.end()) { r.fail("generation_lost", persister ? "persister" : "logger", std::string(when) + ": rotnum=" + std::to_string(rot) + " file " + kv.first + " should hold '" + fx::hex(kv.second, 30) + "' but does not exist"); return; }
				if (it->second != kv.second) { r.fail("generation_wrong", persister ? "persister" : "logger", std::string(when) + ": rotnum=" + std::to_string(rot) + " file " + kv.first + " holds '" + fx::hex(it->second, 30) + "' expected '" + fx::hex(kv.second, 30) + "'"); return; }
			}
			for (auto& kv : got) if (!model.count(kv.first) && kv.first != base && kv.first != base + ".idx")
				{ r.fail("unexpected_file", persister ? "persister" : "logger", std::string(when) + ": rotnum=" + std::to_string(rot) + " unexpected file " + kv.first + " ('" + fx::hex(kv.second, 30) + "')"); return; }
		};

		if (persister)
		{
			FilePersister *fp = new FilePersister(rot);
			bool ok = fp->initialise(dir, base, true);
			expect_rotation();
			if (!ok) r.fail("purge_failed", "persister", "initialise(purge=true) returned false");
			compare("after purge");
			if (ok) { fp->put(1, "hello"); f8String out; if (!fp->get(1, out) || out != "hello") r.fail("purge_failed", "persister", "store unusable after purge rotation"); }
			delete fp;
		}
		else
		{
			Logger::LogFlags flags; flags << Logger::sequence; if (append) flags << Logger::append; if (compress) { flags << Logger::compress; sim::count("logger_with_compress_flag"); }
			FileLogger *lg = new FileLogger(dir + "/" + base, flags, Logger::Levels(Logger::All), " ", Logger::LogPositions(), rot);
			if (rot > 0 && !append) expect_rotation();
			compare("after construction");
			for (auto& op : p.ops)
			{
				if (!r.v.empty()) break;
				if (op.k == "rotate" || op.k == "rotate_force")
				{
					lg->send("line before rotation " + std::to_string(rotations_done));
					sim::advance(2000000);   // let the logger thread write it
					bool force = op.k == "rotate_force";
					std::string live = slurp(dir + "/" + base);
					lg->rotate(force);
					if (rot > 0 && (!append || force)) { model[base] = live; expect_rotation(); }
					compare(force ? "after rotate(force)" : "after rotate()");
				}
			}
			delete lg;
		}
		// never touches other files: every rename issued must stay inside the generation set of the rotated file
		for (auto& c : simfs::call_log())
			if (c.name == "rename" && (!allowed.count(c.p1) || !allowed.count(c.p2)))
				{ r.fail("touches_other_files", persister ? "persister" : "logger", "rotnum=" + std::to_string(rot) + " rename(" + c.p1 + ", " + c.p2 + ") is outside the generation set (cap " + std::to_string(cap) + ")"); break; }
		long renames = 0; for (auto& c : simfs::call_log()) if (c.name == "rename") ++renames;
		sim::count("renames_issued", renames); sim::count("rotations", rotations_done); sim::count(persister ? "target_persister" : "target_logger");
		if (rot > 1024) sim::count("rotnum_above_cap"); if (rot == 0) sim::count("rotnum_zero");
		sim::trace("rot=" + std::to_string(rot) + " renames=" + std::to_string(renames) + " rotations=" + std::to_string(rotations_done) + " files=" + std::to_string(model.size()));
		r.nontrivial = rotations_done >= 1 && model.size() >= 2;
		r.sim_ns = sim::now_ns() - t0;
		drv::collect(r);
		sim::end();
		simfs::record_calls = false;
		return r;
	}

	std::vector<std::pair<std::string, int64_t>> knob_floor() const override { return { { "append", 0 }, { "compress", 0 } }; }
	void finish() override { clean_real(g_dir); rmdir(g_dir.c_str()); }
};

int main(int argc, char **argv)
{
	fx::global_init();
	const char *tmp = getenv("TMPDIR"); std::string base = tmp && *tmp ? tmp : "/tmp";
	g_dir = base + "/fix8-c29-" + std::to_string((long)getpid());
	mkdir(g_dir.c_str(), 0700);
	C29 h;
	return drv::main_(argc, argv, h);
}
