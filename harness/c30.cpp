// C30 — the bundled unbounded MPMC queue never loses, duplicates or reorders: real ff::uMPMC_Ptr_Queue (+ uSWSR/SWSR
// buffers) and the FIX8::ff_unbounded_queue wrappers, producers/consumers as simulated tasks interleaved at the
// FIX8_VERIF hook points between the atomic steps.
#include "fx.hpp"
#include <pthread.h>

using namespace FIX8;
using drv::Op; using drv::Plan; using drv::Result;

namespace {

struct Elem { int prod, ord; };
struct TaskSpec { bool producer; int n; int idx; };

enum { W_RAW = 0, W_PTR = 1, W_VAL = 2 };

struct World
{
	int wrap = W_RAW;
	ff::uMPMC_Ptr_Queue *raw = nullptr;
	ff_unbounded_queue<Elem *> *qp = nullptr;
	ff_unbounded_queue<Elem> *qv = nullptr;
	std::vector<std::vector<Elem>> elems;

	// observation (all tasks are serialised, so plain containers are fine)
	std::map<int, const Elem *> pushing;           // task -> element currently being pushed
	std::map<unsigned long, const Elem *> pushed;   // ticket -> element (recorded at reservation, site 5)
	std::map<unsigned long, bool> published;        // ticket -> publish step done (site 7)
	std::map<int, unsigned long> pop_ticket;        // task -> ticket reserved by the pop in progress (site 16)
	std::map<int, std::pair<unsigned long, bool>> empty_probe; // task -> (ticket seen at site 18, was it published then)
	std::vector<std::string> errors;
	std::map<const Elem *, int> popped_count;
	long pops_ok = 0, pops_empty = 0;

	bool push(Elem *e)
	{
		pushing[sim::task_id()] = e;
		bool r;
		if (wrap == W_RAW) r = raw->push(e); else if (wrap == W_PTR) r = qp->try_push(e); else r = qv->try_push(*e);
		pushing.erase(sim::task_id());
		return r;
	}
	// returns true and the element identity (prod, ord) when something was popped
	bool pop(Elem& out)
	{
		int me = sim::task_id();
		pop_ticket.erase(me); empty_probe.erase(me);
		Elem *p = nullptr; bool r;
		if (wrap == W_RAW) { void *v = nullptr; r = raw->pop(&v); p = (Elem *)v; }
		else if (wrap == W_PTR) r = qp->try_pop(p);
		else r = qv->try_pop(p);
		if (r)
		{
			if (!p) { errors.push_back("null_element|pop returned true with a null element"); return false; }
			out = *p;
			if (wrap == W_VAL) qv->release(p);
			++pops_ok;
			auto it = pop_ticket.find(me);
			if (it == pop_ticket.end()) errors.push_back("no_ticket|pop succeeded without a reservation step");
			else
			{
				auto pe = pushed.find(it->second);
				if (pe == pushed.end()) errors.push_back("pop_unpushed_ticket|pop took ticket " + std::to_string(it->second) + " that no push reserved");
				else if (pe->second->prod != out.prod || pe->second->ord != out.ord)
					errors.push_back("order|pop with ticket " + std::to_string(it->second) + " returned element p" + std::to_string(out.prod) + "#" + std::to_string(out.ord)
						+ " but the push that reserved that ticket carried p" + std::to_string(pe->second->prod) + "#" + std::to_string(pe->second->ord));
			}
		}
		else
		{
			++pops_empty;
			auto it = empty_probe.find(me);
			if (it != empty_probe.end() && it->second.second)
				errors.push_back("false_empty|pop reported empty although the element with head ticket " + std::to_string(it->second.first) + " had been fully pushed");
		}
		return r;
	}
};

World *g_w = nullptr;

void observer(int site, unsigned long val, int task)
{
	World& w = *g_w;
	switch (site)
	{
	case 5: { auto it = w.pushing.find(task); if (it != w.pushing.end()) { if (w.pushed.count(val)) w.errors.push_back("dup_ticket|two pushes reserved ticket " + std::to_string(val)); w.pushed[val] = it->second; } } break;
	case 7: w.published[val] = true; sim::count("push_published"); break;
	case 16: w.pop_ticket[task] = val; break;
	case 18: w.empty_probe[task] = { val, w.published.count(val) > 0 }; break;
	case 31: sim::count("probe_buffer_full_new_buffer"); break;
	case 44: sim::count("probe_buffer_drained_release"); break;
	case 4: sim::count("probe_push_cas_lost"); break;
	case 15: sim::count("probe_pop_cas_lost"); break;
	case 8: sim::count("probe_push_waits_for_slot"); break;
	case 20: sim::count("probe_pop_waits_for_slot"); break;
	}
}

struct TArg { World *w; TaskSpec spec; std::vector<Elem> got; };

void *task_main(void *a)
{
	TArg *t = (TArg *)a; World& w = *t->w;
	if (t->spec.producer)
		for (int i = 0; i < t->spec.n; ++i) { w.push(&w.elems[t->spec.idx][i]); sim::trace("pushed p" + std::to_string(t->spec.idx) + "#" + std::to_string(i)); }
	else
		for (int i = 0; i < t->spec.n; ++i)
		{
			Elem e;
			if (w.pop(e)) { t->got.push_back(e); sim::trace("popped p" + std::to_string(e.prod) + "#" + std::to_string(e.ord)); }
			else sim::trace("empty");
		}
	return nullptr;
}

} // namespace

struct C30 : drv::Harness
{
	const char *id() const override { return "C30"; }
	int sched_retries() const override { return 12; }

	Plan generate(sim::Rng& rng, bool thorough) override
	{
		Plan p; drv::draw_sched_knobs(p, rng, true);
		int wrap = (int)rng.below(10); wrap = wrap < 6 ? W_RAW : wrap < 8 ? W_PTR : W_VAL;
		p.knobs["wrap"] = wrap;
		p.knobs["nq"] = rng.chance(0.5) ? 2 : 4;
		p.knobs["sz"] = rng.range(2, 8);
		int maxt = thorough ? 16 : 8;
		int np = (int)rng.range(1, std::min(6, maxt - 1)), nc = (int)rng.range(1, std::min(6, maxt - np));
		if (rng.chance(0.15)) { np = (int)rng.range(2, maxt / 2); nc = (int)rng.range(2, maxt / 2); }
		bool longrun = rng.chance(0.15);   // few tasks, many elements: reaches the buffer switch branches
		for (int i = 0; i < np; ++i) p.ops.push_back(Op("prod", { longrun ? rng.range(10, 60) : rng.range(1, 6) }));
		for (int i = 0; i < nc; ++i) p.ops.push_back(Op("cons", { longrun ? rng.range(10, 80) : rng.range(1, 8) }));
		return p;
	}

	Result run(const Plan& p, bool verbose) override
	{
		Result r;
		World *w = new World; g_w = w;
		w->wrap = (int)p.knob("wrap");
		sim::point_observer = observer;
		sim::begin(drv::sim_config(p, verbose));
		if (w->wrap == W_RAW) { w->raw = new ff::uMPMC_Ptr_Queue; w->raw->init((unsigned long)p.knob("nq", 2), (size_t)p.knob("sz", 2)); }
		else if (w->wrap == W_PTR) w->qp = new ff_unbounded_queue<Elem *>;
		else w->qv = new ff_unbounded_queue<Elem>;

		std::vector<TArg *> args; int np = 0; long total = 0;
		for (auto& op : p.ops)
		{
			TArg *a = new TArg; a->w = w; a->spec.producer = op.k == "prod"; a->spec.n = (int)op.arg(0, 1);
			if (a->spec.producer) { a->spec.idx = np++; w->elems.emplace_back(); for (int i = 0; i < a->spec.n; ++i) w->elems.back().push_back(Elem{a->spec.idx, i}); total += a->spec.n; }
			args.push_back(a);
		}
		std::vector<pthread_t> th(args.size());
		for (size_t i = 0; i < args.size(); ++i) pthread_create(&th[i], nullptr, task_main, args[i]);
		for (size_t i = 0; i < args.size(); ++i) pthread_join(th[i], nullptr);

		// drain what is left (single consumer, nobody else runs)
		std::vector<Elem> rest; Elem e;
		for (long i = 0; i < total + 4; ++i) if (w->pop(e)) rest.push_back(e);
		for (auto& a : args) for (auto& x : a->got) ++w->popped_count[&w->elems[x.prod][x.ord]];
		for (auto& x : rest) ++w->popped_count[&w->elems[x.prod][x.ord]];

		for (auto& s : w->errors) { size_t b = s.find('|'); r.fail(s.substr(0, b), "queue", s.substr(b + 1)); }
		for (auto& pv : w->elems) for (auto& el : pv)
		{
			int c = w->popped_count.count(&el) ? w->popped_count[&el] : 0;
			if (c == 0) r.fail("lost", "queue", "element p" + std::to_string(el.prod) + "#" + std::to_string(el.ord) + " was pushed but never popped (queue drained)");
			if (c > 1) r.fail("duplicated", "queue", "element p" + std::to_string(el.prod) + "#" + std::to_string(el.ord) + " was popped " + std::to_string(c) + " times");
		}
		// per-producer order as seen by each single consumer and by the global ticket order (covered by 'order' above)
		auto check_fifo = [&](const std::vector<Elem>& got, const char *who)
		{
			std::map<int, int> last;
			for (auto& x : got) { auto it = last.find(x.prod); if (it != last.end() && it->second >= x.ord) r.fail("producer_order", "queue", std::string(who) + " saw p" + std::to_string(x.prod) + "#" + std::to_string(x.ord) + " after #" + std::to_string(it->second)); last[x.prod] = x.ord; }
		};
		for (auto& a : args) check_fifo(a->got, "a consumer");
		check_fifo(rest, "the final drain");
		if (w->pop(e)) r.fail("not_empty", "queue", "queue still returned an element after everything pushed had been popped");

		sim::count("pops_ok", w->pops_ok); sim::count("pops_empty", w->pops_empty); sim::count("elements", total);
		r.nontrivial = args.size() >= 2 && total >= 2 && sim::preemptions() >= 4;
		r.sim_ns = 0;
		drv::collect(r);
		sim::end();
		sim::point_observer = nullptr;
		delete w->raw; delete w->qp; delete w->qv;
		for (auto a : args) delete a;
		delete w; g_w = nullptr;
		return r;
	}

	std::vector<Op> simpler(const Op& op) const override
	{
		std::vector<Op> v;
		if (op.arg(0) > 1) { Op o = op; o.a[0] = 1; v.push_back(o); o.a[0] = op.arg(0) / 2; v.push_back(o); }
		return v;
	}
	std::vector<std::pair<std::string, int64_t>> knob_floor() const override { return { { "nq", 2 }, { "sz", 2 } }; }
};

int main(int argc, char **argv)
{
	fx::global_init();
	C30 h;
	return drv::main_(argc, argv, h);
}
