// C31 — timer events fire no earlier than scheduled and in due order: real Timer<T> thread, schedule, clear and
// its priority queue under the simulated clock.
#include "fx.hpp"
#include <pthread.h>

using namespace FIX8;
using drv::Op; using drv::Plan; using drv::Result;

namespace {

const int MAXEV = 24;

struct Run { int ev; int64_t t; size_t order; };

struct Probe
{
	struct Ev { int64_t sched_t = -1, due = -1, interval = 0; bool repeat = false; int false_after = 0, sleep_ms = 0, runs = 0; int64_t pushed_at = -1; bool stopped = false; size_t sched_order = 0, pushed_order = 0; };
	Ev ev[MAXEV]; std::vector<Run> runs; size_t order = 0;
	template<int I> bool cb()
	{
		Ev& e = ev[I];
		runs.push_back(Run{I, sim::now_ns(), ++order});
		++e.runs;
		sim::trace("fire e" + std::to_string(I) + " run#" + std::to_string(e.runs));
		if (e.sleep_ms) hypersleep<h_milliseconds>((unsigned)e.sleep_ms);
		bool res = !(e.false_after && e.runs >= e.false_after);
		if (!res) e.stopped = true;
		return res;
	}
};

typedef bool (Probe::*CB)();
template<int... I> struct Seq {};
template<int N, int... I> struct Gen : Gen<N - 1, N - 1, I...> {};
template<int... I> struct Gen<0, I...> { typedef Seq<I...> type; };
template<int... I> std::vector<CB> table(Seq<I...>) { return { &Probe::cb<I>... }; }
const std::vector<CB>& cbs() { static std::vector<CB> t = table(Gen<MAXEV>::type()); return t; }

struct World { Probe pr; Timer<Probe> *tm = nullptr; std::vector<Op> helper_ops; };

void do_sched(World& w, const Op& op)
{
	int id = (int)op.arg(0); Probe::Ev& e = w.pr.ev[id];
	e.repeat = op.arg(2) != 0; e.false_after = (int)op.arg(3); e.sleep_ms = (int)op.arg(4); e.interval = op.arg(1) * 1000000ll;
	e.sched_t = sim::now_ns(); e.due = e.sched_t + e.interval; e.sched_order = ++w.pr.order;
	sim::trace("schedule e" + std::to_string(id) + " +" + std::to_string(op.arg(1)) + "ms" + (e.repeat ? " repeat" : ""));
	TimerEvent<Probe> te(cbs()[id], e.repeat);
	w.tm->schedule(te, (unsigned)op.arg(1));
	e.pushed_order = ++w.pr.order; e.pushed_at = sim::now_ns();   // from here on the event is certainly in the timer's queue
}

void *helper(void *a) { World *w = (World *)a; for (auto& op : w->helper_ops) do_sched(*w, op); return nullptr; }

} // namespace

struct C31 : drv::Harness
{
	const char *id() const override { return "C31"; }
	int sched_retries() const override { return 6; }

	Plan generate(sim::Rng& rng, bool thorough) override
	{
		Plan p; drv::draw_sched_knobs(p, rng, true);
		static const int gr[] = { 1, 2, 5, 10 };
		p.knobs["gran_ms"] = gr[rng.below(4)];
		int n = (int)rng.range(1, thorough ? 20 : 12); int used = 0; bool helper = rng.chance(0.3); bool cleared = false;
		for (int i = 0; i < n && used < MAXEV; ++i)
		{
			int w = (int)rng.below(100);
			if (w < 65)
			{
				bool rep = rng.chance(0.35);
				p.ops.push_back(Op("sched", { used++, rng.chance(0.2) ? rng.range(1, 3) : rng.range(1, 200), rep, rep && rng.chance(0.6) ? rng.range(1, 4) : 0, rng.chance(0.25) ? rng.range(1, 8) : 0, helper && rng.chance(0.5) }));
			}
			else if (w < 72) p.ops.push_back(Op("wait_us", { rng.range(1, 999) }));      // a fraction of a millisecond: later events are due in the same millisecond as earlier ones, but later
			else if (w < 90) p.ops.push_back(Op("wait", { rng.chance(0.3) ? rng.range(0, 5) : rng.range(1, 150) }));
			else if (!cleared) { p.ops.push_back(Op("clear")); cleared = rng.chance(0.7); }
		}
		return p;
	}

	Result run(const Plan& p, bool verbose) override
	{
		Result r;
		World *w = new World;
		sim::begin(drv::sim_config(p, verbose));
		int64_t t0 = sim::now_ns();
		int gran = (int)p.knob("gran_ms", 10);
		w->tm = new Timer<Probe>(w->pr, gran);
		w->tm->start();
		// ops flagged for the helper run on a second task, started at the first such op
		for (auto& op : p.ops) if (op.k == "sched" && op.arg(5)) w->helper_ops.push_back(op);
		pthread_t hth{}; bool hstarted = false;
		struct Clear { size_t order; int64_t t; std::vector<int> pending; };
		std::vector<Clear> clears;
		int64_t horizon = t0; int64_t sleep_sum = 0; int nsched = 0;
		for (auto& op : p.ops)
		{
			if (op.k == "sched")
			{
				++nsched;
				sleep_sum += op.arg(4) * 1000000ll * (op.arg(2) ? 6 : 1);
				if (op.arg(5)) { if (!hstarted) { hstarted = true; pthread_create(&hth, nullptr, helper, w); } continue; }
				do_sched(*w, op);
			}
			else if (op.k == "wait") sim::advance(op.arg(0) * 1000000ll);
			else if (op.k == "wait_us") sim::advance(op.arg(0) * 1000ll);
			else if (op.k == "clear")
			{
				if (hstarted) { pthread_join(hth, nullptr); hstarted = false; w->helper_ops.clear(); }   // keep "pending at clear" well defined
				w->tm->clear();
				Clear c; c.order = ++w->pr.order; c.t = sim::now_ns();
				for (int i = 0; i < MAXEV; ++i) if (w->pr.ev[i].sched_t >= 0) c.pending.push_back(i);
				clears.push_back(c);
				sim::trace("clear");
			}
		}
		if (hstarted) pthread_join(hth, nullptr);
		// let everything that is due happen: latest due + sleeps + slack
		for (int i = 0; i < MAXEV; ++i) if (w->pr.ev[i].due > horizon) horizon = w->pr.ev[i].due;
		int64_t end = std::max(horizon, sim::now_ns()) + sleep_sum + 3 * gran * 1000000ll + 450 * 1000000ll;
		sim::advance(end - sim::now_ns());
		w->tm->stop(); w->tm->join();

		// ---- oracle over the invocation records ------------------------------------------------------------
		Probe& pr = w->pr; const int64_t G = gran * 1000000ll;
		std::map<int, std::vector<Run>> by;
		for (auto& x : pr.runs) by[x.ev].push_back(x);
		for (int i = 0; i < MAXEV; ++i)
		{
			Probe::Ev& e = pr.ev[i]; if (e.sched_t < 0) continue;
			auto& rs = by[i];
			bool was_cleared = false; size_t clear_order = 0; int64_t clear_t = 0;
			for (auto& c : clears) if (c.order > e.sched_order) { was_cleared = true; clear_order = c.order; clear_t = c.t; break; }
			if (!rs.empty() && rs[0].t < e.due) r.fail("fired_early", "first_run", "event e" + std::to_string(i) + " due at +" + std::to_string((e.due - t0) / 1000) + "us ran at +" + std::to_string((rs[0].t - t0) / 1000) + "us");
			for (size_t k = 1; k < rs.size(); ++k)
			{
				if (!e.repeat) { r.fail("repeat_wrong", "non_repeating_ran_again", "event e" + std::to_string(i) + " is not repeating but ran " + std::to_string(rs.size()) + " times"); break; }
				if (rs[k].t - rs[k - 1].t < e.interval) r.fail("fired_early", "repeat_interval", "repeating event e" + std::to_string(i) + " (interval " + std::to_string(e.interval / 1000000) + "ms) ran again after " + std::to_string((rs[k].t - rs[k - 1].t) / 1000) + "us");
			}
			if (e.false_after && (int)rs.size() > e.false_after) r.fail("repeat_wrong", "ran_after_false", "event e" + std::to_string(i) + " ran " + std::to_string(rs.size()) + " times although its callback returned false on run " + std::to_string(e.false_after));
			if (was_cleared) for (auto& x : rs) if (x.order > clear_order) { r.fail("ran_after_clear", "clear", "event e" + std::to_string(i) + " was pending when clear() returned (+" + std::to_string((clear_t - t0) / 1000) + "us) and still ran at +" + std::to_string((x.t - t0) / 1000) + "us"); break; }
			// bounded liveness: not cleared before it was due, not stopped => it ran
			// (a schedule() call can wait a long time for the timer's lock while callbacks sleep under it: count from the later
			//  of due time and the moment the call returned)
			bool cleared_before_due = was_cleared && clear_t <= std::max(e.due, e.pushed_at) + sleep_sum + 2 * G;
			if (rs.empty() && !cleared_before_due) r.fail("never_fired", "liveness", "event e" + std::to_string(i) + " due at +" + std::to_string((e.due - t0) / 1000) + "us never ran by +" + std::to_string((end - t0) / 1000) + "us");
			if (e.repeat && !was_cleared && !rs.empty())
			{
				int expect_min = e.false_after ? e.false_after : 2;
				int64_t room = end - e.due; int64_t per = e.interval + e.sleep_ms * 1000000ll + sleep_sum + 2 * G;
				if (room / per >= expect_min + 1 && (int)rs.size() < expect_min) r.fail("never_fired", "repeat_liveness", "repeating event e" + std::to_string(i) + " ran only " + std::to_string(rs.size()) + " times");
			}
		}
		// due-time order: B ran before A although A was queued earlier than B's run and had an earlier due time
		{
			struct Inst { int ev; size_t pushed_order; int64_t due, ran; size_t order; };
			std::vector<Inst> inst;
			for (auto& kv : by)
			{
				Probe::Ev& e = pr.ev[kv.first];
				for (size_t k = 0; k < kv.second.size(); ++k)
				{
					// instance 0 is queued once schedule() has returned; a repeat instance is re-queued under the timer's lock
					// right after the previous callback, i.e. before any later callback starts
					size_t pushed = k == 0 ? e.pushed_order : kv.second[k - 1].order; int64_t due = k == 0 ? e.due : kv.second[k - 1].t + e.interval;
					inst.push_back(Inst{kv.first, pushed, due, kv.second[k].t, kv.second[k].order});
				}
			}
			for (auto& a : inst) for (auto& b : inst)
				if (a.due < b.due && a.pushed_order < b.order && b.order < a.order && a.due <= b.ran)
					r.fail("due_order", "order", "event e" + std::to_string(b.ev) + " (due +" + std::to_string((b.due - t0) / 1000) + "us) ran before e" + std::to_string(a.ev) + " (due +" + std::to_string((a.due - t0) / 1000) + "us) while both were pending and due");
		}
		sim::count("events_scheduled", nsched); sim::count("callbacks", (int64_t)pr.runs.size()); sim::count("clears", (int64_t)clears.size());
		r.nontrivial = nsched >= 2 && pr.runs.size() >= 2;
		r.sim_ns = sim::now_ns() - t0;
		delete w->tm;
		drv::collect(r);
		sim::end();
		delete w;
		return r;
	}

	std::vector<Op> simpler(const Op& op) const override
	{
		std::vector<Op> v;
		if (op.k == "sched") { if (op.arg(4)) { Op o = op; o.a[4] = 0; v.push_back(o); } if (op.arg(5)) { Op o = op; o.a[5] = 0; v.push_back(o); } if (op.arg(1) > 10) { Op o = op; o.a[1] = op.arg(1) / 2; v.push_back(o); } }
		if (op.k == "wait" && op.arg(0) > 1) { Op o = op; o.a[0] = op.arg(0) / 2; v.push_back(o); }
		return v;
	}
};

int main(int argc, char **argv)
{
	fx::global_init();
	C31 h;
	return drv::main_(argc, argv, h);
}
