// Common fix8-side helpers for the harnesses.
#pragma once
#include <fix8/f8includes.hpp>
#include "utest_types.hpp"
#include "utest_router.hpp"
#include "utest_classes.hpp"
#include "kernel.hpp"
#include "simfs.hpp"
#include "driver.hpp"

namespace fx {

// The global logger singleton lazily starts a FileLogger thread; create it once outside any simulated world,
// silence it and stop it so that it never runs inside a run.
inline void global_init()
{
	static bool done = false;
	if (done) return;
	done = true;
	// NOT /dev/null: FileLogger rotates its file on construction (rename name -> name.1 ...), which as root would
	// rename the device node away. A private scratch file, removed again at once.
	const char *tmp = getenv("TMPDIR"); std::string path = std::string(tmp && *tmp ? tmp : "/tmp") + "/fix8-verif-glog-" + std::to_string((long)getpid()) + ".log";
	FIX8::GlobalLogger::set_global_filename(path);
	FIX8::GlobalLogger::set_levels(FIX8::Logger::Levels(FIX8::Logger::None));
	FIX8::GlobalLogger::stop();
	::unlink(path.c_str());
	// FastFlow's per-thread allocator registers a thread-exit destructor; make sure its key exists before the kernel's
	(void)::ff::FFAllocator::instance();
	sim::init_thread_exit_key();
}

inline std::string hex(const std::string& s, size_t max = 48)
{
	static const char *d = "0123456789abcdef"; std::string o;
	for (size_t i = 0; i < s.size() && i < max; ++i) { unsigned char c = s[i]; if (c >= 0x20 && c < 0x7f && c != '\\') o += (char)c; else if (c == 1) o += '|'; else { o += "\\x"; o += d[c >> 4]; o += d[c & 15]; } }
	if (s.size() > max) o += "...(" + std::to_string(s.size()) + ")";
	return o;
}

} // namespace fx
