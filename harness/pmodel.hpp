// Persister world shared by C26 (contract) and C27 (crash consistency): real persister + reference model.
#pragma once
#include "fx.hpp"
#include <map>
#include <memory>

namespace pm {

using namespace FIX8;
using drv::Op; using drv::Plan;

inline std::string content(unsigned seq, unsigned size, unsigned cid)
{
	sim::Rng r(seq * 1000003ull + cid * 7919ull + 17);
	std::string s; s.reserve(size);
	std::string tag = "m" + std::to_string(seq) + "." + std::to_string(cid) + ":";
	for (unsigned i = 0; i < size; ++i) s += i < tag.size() ? tag[i] : (char)r.below(256);
	return s;
}

inline void gen_ops(Plan& p, sim::Rng& rng, int n, bool file, bool crashy)
{
	unsigned dom = (unsigned)rng.range(3, 14); unsigned cid = 0;
	auto seqno = [&]() -> int64_t { int x = (int)rng.below(20); return x == 0 ? 0 : x == 1 ? (int64_t)rng.range(1000, 5000) : (int64_t)rng.range(1, dom); };
	auto size = [&]() -> int64_t { int x = (int)rng.below(100); if (crashy) return x < 10 ? 0 : rng.range(1, 24); return x < 10 ? 0 : x < 80 ? rng.range(1, 40) : x < 95 ? rng.range(41, 600) : rng.range(601, 8192); };
	for (int i = 0; i < n; ++i)
	{
		int w = (int)rng.below(100);
		if (w < 35) p.ops.push_back(Op("put", { seqno(), size(), (int64_t)++cid }));
		else if (w < 50) p.ops.push_back(Op("get", { seqno() }));
		else if (w < 62) p.ops.push_back(Op("putc", { rng.range(0, 50), rng.range(0, 50) }));
		else if (w < 70) p.ops.push_back(Op("getc"));
		else if (w < 75) p.ops.push_back(Op("last"));
		else if (w < 83) p.ops.push_back(Op("near", { rng.range(0, dom + 2), rng.chance(0.7) ? -1 : rng.range(0, dom + 3) }));
		else if (w < 93) { int64_t f = rng.range(0, dom + 2); p.ops.push_back(Op("range", { f, rng.chance(0.4) ? 0 : rng.range(0, dom + 3) })); }
		else if (w < 98) p.ops.push_back(Op(file ? "reopen" : "last"));
		else p.ops.push_back(Op(file && !crashy ? "reopen_purge" : "getc"));
	}
}

inline std::vector<Op> simpler(const Op& op)
{
	std::vector<Op> v;
	if (op.k == "put" && op.arg(1) > 1) { Op o = op; o.a[1] = 1; v.push_back(o); }
	if (op.k == "put" && op.arg(0) > 3) { Op o = op; o.a[0] = op.arg(0) > 100 ? 9 : op.arg(0) - 1; v.push_back(o); }
	if (op.k == "putc" && (op.arg(0) > 2 || op.arg(1) > 2)) { Op o = op; o.a[0] = 1 + op.arg(0) % 2; o.a[1] = 1 + op.arg(1) % 2; v.push_back(o); }
	return v;
}

struct Visit { unsigned seq; std::string bytes; bool done; };

struct RecSession : Session
{
	std::vector<Visit> visits; int stop_after = -1;
	RecSession() : Session(UTEST::ctx(), sender_comp_id("REC")) {}
	bool handle_application(const unsigned, const Message *&) override { return true; }
	bool retrans_callback(const SequencePair& with, RetransmissionContext& rctx) override
	{
		visits.push_back(Visit{with.first, with.second, rctx._no_more_records});
		return true;
	}
};

struct World
{
	bool file; unsigned rotnum;
	Persister *ps = nullptr; RecSession *ses;
	std::map<unsigned, std::string> model; bool has_ctrl = false; unsigned cs = 0, ct = 0;
	std::string dir = "/simfs/store", name = "p.db";
	bool verify_after_put = true;   // C27 turns the read-back off so that a put's last syscall is its data/index write

	// the callback-target session is created once per process, outside any simulated world (its timer thread is a
	// plain idle thread that never touches the persisters)
	static RecSession *shared_session() { static RecSession *s = new RecSession; return s; }
	World(bool f, unsigned rot) : file(f), rotnum(rot) { ses = shared_session(); }
	~World() { close(); }

	bool open(bool purge)
	{
		if (file) { auto *fp = new FilePersister(rotnum); ps = fp; return fp->initialise(dir, name, purge); }
		ps = new MemoryPersister; return true;
	}
	void close() { delete ps; ps = nullptr; }

	unsigned model_last() const { return model.empty() ? 0 : model.rbegin()->first; }

	std::string audit(const char *when)
	{
		for (auto& kv : model)
		{
			f8String out;
			if (!ps->get(kv.first, out)) return std::string(when) + "_lost: seq " + std::to_string(kv.first) + " not retrievable";
			if (out != kv.second) return std::string(when) + "_bytes: seq " + std::to_string(kv.first) + " returned '" + fx::hex(out) + "' expected '" + fx::hex(kv.second) + "'";
		}
		unsigned s = 0, t = 0; bool g = ps->get(s, t);
		if (g != has_ctrl) return std::string(when) + "_ctrl_presence: control get returned " + std::to_string(g) + " expected " + std::to_string(has_ctrl);
		if (g && (s != cs || t != ct)) return std::string(when) + "_ctrl_value: control (" + std::to_string(s) + "," + std::to_string(t) + ") expected (" + std::to_string(cs) + "," + std::to_string(ct) + ")";
		unsigned l = 0; ps->get_last_seqnum(l);
		if (l != model_last()) return std::string(when) + "_last: last seqnum " + std::to_string(l) + " expected " + std::to_string(model_last());
		return "";
	}

	// returns "" when the implementation agrees with the reference, else "<what>: <details>"
	std::string apply(const Op& op)
	{
		std::string why = apply_(op);
		std::string t = op.k; for (auto x : op.a) t += " " + std::to_string(x);
		sim::trace(t + " -> " + (why.empty() ? "ok" : why));
		return why;
	}
	std::string apply_(const Op& op)
	{
		if (op.k == "put")
		{
			unsigned seq = (unsigned)op.arg(0); std::string b = content(seq, (unsigned)op.arg(1), (unsigned)op.arg(2));
			bool expect = seq != 0 && !model.count(seq);
			bool got = ps->put(seq, b);
			if (got != expect) return "put_result: put(" + std::to_string(seq) + ") returned " + std::to_string(got) + " expected " + std::to_string(expect);
			if (got) model[seq] = b;
			// what is stored must stay what was stored first
			if (seq && verify_after_put) { f8String out; bool g = ps->get(seq, out); if (!g || out != model[seq]) return "put_then_get: get(" + std::to_string(seq) + ") after put returned " + (g ? "'" + fx::hex(out) + "'" : std::string("failure")) + " expected '" + fx::hex(model[seq]) + "'"; }
		}
		else if (op.k == "get")
		{
			unsigned seq = (unsigned)op.arg(0); f8String out; bool got = ps->get(seq, out); bool expect = seq && model.count(seq);
			if (got != expect) return "get_result: get(" + std::to_string(seq) + ") returned " + std::to_string(got) + " expected " + std::to_string(expect);
			if (got && out != model[seq]) return "get_bytes: get(" + std::to_string(seq) + ") returned '" + fx::hex(out) + "' expected '" + fx::hex(model[seq]) + "'";
		}
		else if (op.k == "putc")
		{
			bool got = ps->put((unsigned)op.arg(0), (unsigned)op.arg(1));
			has_ctrl = true; cs = (unsigned)op.arg(0); ct = (unsigned)op.arg(1);
			unsigned s = cs, t = ct; bool g = !verify_after_put || ps->get(s, t);
			if (!g || s != cs || t != ct) return "putc_then_getc: control get after put(" + std::to_string(cs) + "," + std::to_string(ct) + ") returned " + (g ? "(" + std::to_string(s) + "," + std::to_string(t) + ")" : std::string("failure"));
			if (!got) return "putc_result: control put returned false";
		}
		else if (op.k == "getc")
		{
			unsigned s = 0, t = 0; bool g = ps->get(s, t);
			if (g != has_ctrl) return "getc_result: control get returned " + std::to_string(g) + " expected " + std::to_string(has_ctrl);
			if (g && (s != cs || t != ct)) return "getc_value: control (" + std::to_string(s) + "," + std::to_string(t) + ") expected (" + std::to_string(cs) + "," + std::to_string(ct) + ")";
		}
		else if (op.k == "last")
		{
			unsigned l = 77; unsigned rv = ps->get_last_seqnum(l);
			if (l != model_last() || rv != model_last()) return "last: last seqnum " + std::to_string(l) + " expected " + std::to_string(model_last());
		}
		else if (op.k == "near")
		{
			unsigned req = (unsigned)op.arg(0); unsigned last = op.arg(1) < 0 ? model_last() : (unsigned)op.arg(1);
			unsigned expect = 0;
			if (last) for (auto& kv : model) if (kv.first >= req && kv.first <= last) { expect = kv.first; break; }
			unsigned got = ps->find_nearest_highest_seqnum(req, last);
			if (got != expect) return "near: find_nearest_highest_seqnum(" + std::to_string(req) + "," + std::to_string(last) + ") returned " + std::to_string(got) + " expected " + std::to_string(expect);
		}
		else if (op.k == "range")
		{
			unsigned from = (unsigned)op.arg(0), to = (unsigned)op.arg(1);
			unsigned finish = to == 0 ? model_last() : to;
			std::vector<unsigned> expect; for (auto& kv : model) if (kv.first >= from && kv.first <= finish) expect.push_back(kv.first);
			ses->visits.clear();
			unsigned n = ps->get(from, to, *ses, &Session::retrans_callback);
			auto& v = ses->visits;
			std::string desc = "range(" + std::to_string(from) + "," + std::to_string(to) + ")";
			if (v.empty() || !v.back().done) return "range_done: " + desc + " did not end with a completion callback";
			for (size_t i = 0; i + 1 < v.size(); ++i) if (v[i].done) return "range_done: " + desc + " signalled completion before the end";
			if (v.size() - 1 != expect.size() || n != expect.size())
			{
				std::string got; for (size_t i = 0; i + 1 < v.size(); ++i) got += std::to_string(v[i].seq) + " ";
				std::string ex; for (auto e : expect) ex += std::to_string(e) + " ";
				return "range_visit: " + desc + " visited [" + got + "] (returned " + std::to_string(n) + ") expected [" + ex + "]";
			}
			for (size_t i = 0; i < expect.size(); ++i)
			{
				if (v[i].seq != expect[i]) return "range_visit: " + desc + " visit #" + std::to_string(i) + " was " + std::to_string(v[i].seq) + " expected " + std::to_string(expect[i]);
				if (v[i].bytes != model[expect[i]]) return "range_bytes: " + desc + " seq " + std::to_string(expect[i]) + " bytes '" + fx::hex(v[i].bytes) + "' expected '" + fx::hex(model[expect[i]]) + "'";
			}
		}
		else if (op.k == "reopen")
		{
			if (!file) return "";
			close();
			if (!open(false)) return "reopen_open: initialise failed";
			return audit("reopen");
		}
		else if (op.k == "reopen_purge")
		{
			if (!file) return "";
			close(); model.clear(); has_ctrl = false;
			if (!open(true)) return "purge_open: initialise failed";
			return audit("purge");
		}
		return "";
	}
};

} // namespace pm
