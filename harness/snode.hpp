// Shared pieces of the session harnesses: simulated socket, independent tag=value codec, session node, scripted peer.
#pragma once
#include "fx.hpp"
#include <Poco/Net/StreamSocketImpl.h>
#include <Poco/Net/StreamSocket.h>
#include <deque>
#include <memory>
#include <set>

namespace sn {

using namespace FIX8;
const char SOH = '\x01';

// ------------------------------------------------------------------------------------------------
// transport faults (all decided by the run's transport PRNG stream; each counted when it actually fires)
struct NetCfg
{
	double short_read = 0, dribble = 0, short_write = 0, eagain = 0;
	int64_t lat_ns = 200000, jitter_ns = 300000;
};

struct Link;

struct SimSock : Poco::Net::StreamSocketImpl
{
	std::deque<char> rx; bool rx_eof = false, closed = false, reset = false;
	std::string tx;                                         // everything written (scripted mode)
	std::vector<std::pair<int64_t, size_t>> tx_marks;       // (time, tx size after write)
	sim::Rng rng; NetCfg cfg; const char *name = "sock";
	SimSock *peer = nullptr; Link *link = nullptr; int64_t last_deliv = 0;
	int eagain_left = 0; std::string peer_ip = "127.0.0.1";
	bool connect_ok = true; int refuse_left = 0; uint64_t rx_total = 0;   // refuse_left: the next N connect() calls are refused

	explicit SimSock(uint64_t seed = 1) : rng(seed) {}

	int sendBytes(const void *b, int len, int) override;
	int receiveBytes(void *b, int len, int) override
	{
		if (cfg.eagain > 0 && eagain_left == 0 && rng.chance(cfg.eagain)) eagain_left = 1 + (int)rng.below(3);
		if (eagain_left > 0 && !rx.empty()) { --eagain_left; sim::count("net_eagain_read"); sim::yield_point(); errno = EAGAIN; return -1; }
		while (rx.empty())
		{
			if (reset) { errno = ECONNRESET; return -1; }
			if (rx_eof || closed) return 0;
			sim::block_on(this);
		}
		int n = std::min<int>(len, (int)rx.size());
		if (n > 1 && cfg.dribble > 0 && rng.chance(cfg.dribble)) { n = 1; sim::count("net_dribble_read"); }
		else if (n > 1 && cfg.short_read > 0 && rng.chance(cfg.short_read)) { n = 1 + (int)rng.below(n - 1); sim::count("net_short_read"); }
		for (int i = 0; i < n; ++i) { ((char *)b)[i] = rx.front(); rx.pop_front(); }
		rx_total += n;
		sim::yield_point();
		return n;
	}
	bool poll(const Poco::Timespan& ts, int mode) override
	{
		if (mode & Poco::Net::Socket::SELECT_WRITE) return true;
		if (!rx.empty() || rx_eof || closed || reset) return true;
		if (ts.totalMicroseconds() > 0) sim::block_on(this, ts.totalMicroseconds() * 1000);
		return !rx.empty() || rx_eof || closed || reset;
	}
	void connect(const Poco::Net::SocketAddress&, const Poco::Timespan&) override { if (refuse_left > 0) { --refuse_left; sim::count("net_connect_refused"); throw Poco::Net::ConnectionRefusedException("simulated"); } if (!connect_ok) { sim::count("net_connect_refused"); throw Poco::Net::ConnectionRefusedException("simulated"); } }
	void connect(const Poco::Net::SocketAddress&) override { if (!connect_ok) { sim::count("net_connect_refused"); throw Poco::Net::ConnectionRefusedException("simulated"); } }
	void shutdown() override { closed = true; if (sim::in_world()) sim::wake_all(this); }
	void shutdownReceive() override { closed = true; if (sim::in_world()) sim::wake_all(this); }
	void shutdownSend() override {}
	void close() override { closed = true; if (sim::in_world()) sim::wake_all(this); }
	Poco::Net::SocketAddress peerAddress() override { return Poco::Net::SocketAddress(peer_ip, 5001); }
	Poco::Net::SocketAddress address() override { return Poco::Net::SocketAddress("127.0.0.1", 5000); }
	void setRawOption(int, int, const void *, poco_socklen_t) override {}
	void getRawOption(int, int, void *, poco_socklen_t&) override {}

	// driver side (scripted mode)
	void inject(const std::string& bytes) { for (char c : bytes) rx.push_back(c); sim::wake_all(this); }
	void eof() { rx_eof = true; sim::wake_all(this); }
	void rst() { reset = true; sim::wake_all(this); }
};

// a simulated TCP link between two SimSocks: FIFO per direction, latency + jitter, drop = both ends see EOF and bytes
// in flight are lost
struct Link
{
	bool up = true; uint64_t gen = 1; long pending = 0;      // pending = chunks written but not yet delivered
	SimSock *a = nullptr, *b = nullptr;
	void join(SimSock *x, SimSock *y) { a = x; b = y; x->peer = y; y->peer = x; x->link = y->link = this; up = true; ++gen; }
	void drop() { if (!up) return; up = false; ++gen; sim::count("net_link_drop"); if (a) a->eof(); if (b) b->eof(); }
};

inline int SimSock::sendBytes(const void *b, int len, int)
{
	if (closed || reset) { errno = EPIPE; return -1; }
	if (link && !link->up) { errno = EPIPE; return -1; }
	if (cfg.eagain > 0 && rng.chance(cfg.eagain * 0.5)) { sim::count("net_eagain_write"); sim::yield_point(); errno = EAGAIN; return -1; }
	int n = len;
	if (len > 1 && cfg.short_write > 0 && rng.chance(cfg.short_write)) { n = 1 + (int)rng.below(len - 1); sim::count("net_short_write"); }
	if (peer)
	{
		std::string data((const char *)b, n); SimSock *p = peer; Link *l = link; uint64_t g = l ? l->gen : 0;
		int64_t when = sim::now_ns() + cfg.lat_ns + (cfg.jitter_ns ? (int64_t)rng.below(cfg.jitter_ns) : 0);
		if (when < last_deliv) when = last_deliv;       // TCP: no overtaking inside one direction
		last_deliv = when;
		if (l) ++l->pending;
		sim::at(when, [p, data, l, g] { if (l) --l->pending; if (l && (!l->up || l->gen != g)) { sim::count("net_bytes_lost_in_flight", (int64_t)data.size()); return; } for (char c : data) p->rx.push_back(c); sim::wake_all(p); });
	}
	tx.append((const char *)b, n);
	tx_marks.emplace_back(sim::now_ns(), tx.size());
	sim::yield_point();
	return n;
}

// ------------------------------------------------------------------------------------------------
// independent FIX tag=value codec (no fix8 code): build with BodyLength/CheckSum computed here, parse by scanning
typedef std::vector<std::pair<int, std::string>> Flds;

inline std::string utc_ts(int64_t ns)
{
	time_t s = (time_t)(ns / 1000000000ll); struct tm tmv; gmtime_r(&s, &tmv); char buf[40];
	snprintf(buf, sizeof buf, "%04d%02d%02d-%02d:%02d:%02d.%03d", tmv.tm_year + 1900, tmv.tm_mon + 1, tmv.tm_mday, tmv.tm_hour, tmv.tm_min, tmv.tm_sec, (int)((ns % 1000000000ll) / 1000000));
	return buf;
}

inline std::string wire(const std::string& begin, const Flds& body /* starts with 35 */)
{
	std::string b;
	for (auto& f : body) { b += std::to_string(f.first); b += '='; b += f.second; b += SOH; }
	std::string m = "8=" + begin + SOH + "9=" + std::to_string(b.size()) + SOH + b;
	unsigned sum = 0; for (unsigned char c : m) sum += c;
	char cs[8]; snprintf(cs, sizeof cs, "%03u", sum % 256);
	return m + "10=" + cs + SOH;
}

struct Msg
{
	Flds f; std::string raw;
	const std::string *find(int tag) const { for (auto& x : f) if (x.first == tag) return &x.second; return nullptr; }
	std::string get(int tag, const std::string& def = "") const { auto *p = find(tag); return p ? *p : def; }
	long num(int tag, long def = -1) const { auto *p = find(tag); return p ? atol(p->c_str()) : def; }
	bool has(int tag) const { return find(tag) != nullptr; }
	std::string type() const { return get(35); }
	bool possdup() const { return get(43) == "Y"; }
	bool gapfill() const { return type() == "4" && get(123) == "Y"; }
	// body fields = everything except standard header/trailer tags
	Flds body() const
	{
		static const int hdr[] = { 8, 9, 35, 34, 49, 56, 52, 43, 97, 122, 10, 50, 57, 115, 116, 128, 129, 142, 143, 144, 145, 90, 91, 212, 213, 347, 369, 370 };
		Flds o; for (auto& x : f) { bool h = false; for (int t : hdr) if (t == x.first) h = true; if (!h) o.push_back(x); } return o;
	}
	std::string brief() const { return "35=" + type() + " 34=" + get(34) + (possdup() ? " 43=Y" : "") + (has(123) ? " 123=" + get(123) : "") + (has(36) ? " 36=" + get(36) : "") + (has(7) ? " 7=" + get(7) + " 16=" + get(16) : "") + (has(11) ? " 11=" + get(11) : "") + (has(112) ? " 112=" + get(112) : "") + (has(58) ? " 58=" + get(58).substr(0, 60) : ""); }
};

// split a byte stream into messages; returns false if the stream is not a sequence of well-formed messages (framing,
// BodyLength, CheckSum); 'rest' receives an incomplete tail
inline bool split(const std::string& s, std::vector<Msg>& out, std::string& rest, std::string *why = nullptr)
{
	size_t p = 0;
	while (p < s.size())
	{
		if (s.compare(p, 2, "8=") != 0) { if (why) *why = "stream does not continue with 8= at offset " + std::to_string(p) + ": '" + fx::hex(s.substr(p, 24)) + "'"; return false; }
		size_t e1 = s.find(SOH, p); if (e1 == std::string::npos) break;
		if (s.compare(e1 + 1, 2, "9=") != 0) { if (s.size() < e1 + 3) break; if (why) *why = "second field is not BodyLength at offset " + std::to_string(e1 + 1); return false; }
		size_t e2 = s.find(SOH, e1 + 1); if (e2 == std::string::npos) break;
		long bl = atol(s.c_str() + e1 + 3);
		size_t end = e2 + 1 + bl + 7;
		if (end > s.size()) break;
		if (s.compare(e2 + 1 + bl, 3, "10=") != 0 || s[end - 1] != SOH) { if (why) *why = "BodyLength " + std::to_string(bl) + " does not lead to the CheckSum field at offset " + std::to_string(e2 + 1 + bl); return false; }
		unsigned sum = 0; for (size_t i = p; i < e2 + 1 + bl; ++i) sum += (unsigned char)s[i];
		if ((int)(sum % 256) != atoi(s.c_str() + e2 + 1 + bl + 3)) { if (why) *why = "bad CheckSum in message at offset " + std::to_string(p); return false; }
		Msg m; m.raw = s.substr(p, end - p);
		size_t q = p;
		while (q < end)
		{
			size_t eq = s.find('=', q), so = s.find(SOH, q);
			if (eq == std::string::npos || so == std::string::npos || eq > so) break;
			m.f.emplace_back(atoi(s.c_str() + q), s.substr(eq + 1, so - eq - 1));
			q = so + 1;
		}
		out.push_back(m);
		p = end;
	}
	rest = s.substr(p);
	return true;
}

// ------------------------------------------------------------------------------------------------
struct Delivery { unsigned seq; std::string id; bool possdup; int64_t t; std::string type; };

struct Node : Session
{
	std::string nm; std::vector<Delivery> delivered; std::vector<std::pair<int, int>> states; bool auth_ok = true;
	Node(const std::string& n, const F8MetaCntx& ctx, const SessionID& sid, Persister *p) : Session(ctx, sid, p), nm(n) {}
	Node(const std::string& n, const F8MetaCntx& ctx, const sender_comp_id& sci, Persister *p) : Session(ctx, sci, p), nm(n) {}
	bool handle_application(const unsigned seqnum, const Message *&msg) override
	{
		if (enforce(seqnum, msg)) return false;      // exactly as the sample applications do
		UTEST::ClOrdID id; msg->get(id); poss_dup_flag pd(false); msg->Header()->get(pd);
		delivered.push_back(Delivery{seqnum, id(), pd(), sim::now_ns(), msg->get_msgtype()});
		sim::trace(nm + " deliver seq=" + std::to_string(seqnum) + " id=" + id() + (pd() ? " DUP" : ""));
		return true;
	}
	void state_change(const States::SessionStates a, const States::SessionStates b) override
	{ states.emplace_back((int)a, (int)b); sim::trace(nm + " state " + get_session_state_string(a) + "->" + get_session_state_string(b)); }
	bool authenticate(SessionID&, const Message *) override { return auth_ok; }
	// the application hook that may alter a message just before it is encoded: when enabled it stamps application
	// messages, so that "stored exactly as transmitted" also covers the order of modify_outbound, encode, store
	bool tweak_outbound = false; unsigned tweaks = 0;
	void modify_outbound(Message *msg) override
	{
		if (!tweak_outbound || msg->is_admin()) return;
		UTEST::ClOrdID id; msg->get(id);
		if (!msg->have(UTEST::Account::get_field_id())) { *msg << new UTEST::Account("MO-" + id()); ++tweaks; }   // idempotent: a replayed message already carries it
	}
	unsigned nrs() const { return _next_receive_seq; }
	unsigned nss() const { return _next_send_seq; }
	States::SessionStates st() const { return _state; }
	Persister *pers() { return _persist; }
	bool terminated() { return _state == States::st_session_terminated || _control.has(shutdown); }
};

inline Message *order(const std::string& id)
{
	auto *nos = new UTEST::NewOrderSingle;
	*nos << new UTEST::ClOrdID(id) << new UTEST::HandlInst('1') << new UTEST::Symbol("X") << new UTEST::Side('1')
		  << new UTEST::TransactTime() << new UTEST::OrdType('1') << new UTEST::OrderQty(10);
	return nos;
}

// a scripted counterparty speaking through the independent codec
struct Peer
{
	SimSock *sock = nullptr; std::string begin = "FIX.4.2", me = "CLI", them = "SRV";
	unsigned out_seq = 1; size_t parsed = 0; std::vector<Msg> seen; std::string last_error;
	Flds hdr(const std::string& type, unsigned seq, int64_t t, const Flds& extra_hdr = {}) const
	{
		Flds f = { {35, type}, {34, std::to_string(seq)}, {49, me}, {56, them}, {52, utc_ts(t)} };
		for (auto& x : extra_hdr) f.push_back(x);
		return f;
	}
	std::string make(const std::string& type, unsigned seq, const Flds& body, const Flds& extra_hdr = {}) const
	{
		Flds f = hdr(type, seq, sim::now_ns(), extra_hdr); for (auto& x : body) f.push_back(x);
		return wire(begin, f);
	}
	static Flds order_body(const std::string& id) { return { {11, id}, {21, "1"}, {55, "X"}, {54, "1"}, {60, utc_ts(sim::now_ns())}, {40, "1"}, {38, "10"} }; }
	void send(const std::string& bytes) { sock->inject(bytes); }
	void send_msg(const std::string& type, const Flds& body, const Flds& extra_hdr = {}) { send(make(type, out_seq++, body, extra_hdr)); }
	void logon(int hb, const Flds& extra = {}) { Flds b = { {98, "0"}, {108, std::to_string(hb)} }; for (auto& x : extra) b.push_back(x); send_msg("A", b); }
	// parse what the session wrote since the last call; false on framing errors
	bool poll(std::vector<Msg>& fresh)
	{
		std::string rest, why; std::vector<Msg> out;
		if (!split(sock->tx.substr(parsed), out, rest, &why)) { last_error = why; return false; }
		parsed = sock->tx.size() - rest.size();
		for (auto& m : out) { seen.push_back(m); fresh.push_back(m); }
		return true;
	}
};

// scratch XML configuration is not used; sessions are wired by hand the way sessionwrapper.hpp does it
inline LoginParameters login_params(int hb, bool enforce_compids = true)
{
	LoginParameters lp; lp._hb_int = (unsigned)hb; lp._always_seqnum_assign = false; lp._enforce_compids = enforce_compids;
	lp._reset_sequence_numbers = false; lp._silent_disconnect = false; lp._no_chksum_flag = false; lp._permissive_mode_flag = false; lp._reliable = false;
	return lp;
}

} // namespace sn
