// One real fix8 session (Session + Connection + FIXReader/FIXWriter + Timer + persister) against a scripted
// counterparty on a simulated socket. Shared by C16-C19, C22, C23, C25.
#pragma once
#include <memory>
#include "snode.hpp"

namespace sw {

using namespace FIX8;
using namespace sn;
using drv::Op; using drv::Plan; using drv::Result;

struct Out { Msg m; int64_t t; size_t idx; int conn; };      // a message the session wrote
struct Snap { size_t after_op; unsigned nss, nrs; int state; bool has_ctrl; unsigned cs, ct; int durable; unsigned dcs, dct; int64_t t; size_t out_n; size_t deliv_n; bool terminated; };

struct World
{
	// configuration (from plan knobs)
	bool initiator = false; int pm = pm_thread; int pers = 1; int hb = 30; bool enforce = true; bool always_assign = false; bool tweak = false;
	unsigned cfg_send = 0, cfg_recv = 0; uint64_t net_seed = 1; NetCfg net; bool reset_flag = false;
	std::string ses_id = "SES", peer_id = "PEER"; Clients clients; std::string peer_ip = "127.0.0.1";
	// objects
	SimSock *impl = nullptr; Poco::Net::StreamSocket *sock = nullptr; Node *ses = nullptr; Connection *conn = nullptr; Persister *per = nullptr;
	Peer peer; int conn_no = 0;
	// history
	std::vector<Out> out; std::vector<Delivery> deliv; std::vector<Snap> snaps; std::string framing_error;
	std::vector<std::pair<int, int>> all_states;
	std::string dir = "/simfs/ses";

	void configure(const Plan& p)
	{
		initiator = p.knob("initiator") != 0; pm = (int)p.knob("pm", pm_thread); pers = (int)p.knob("pers", 1); hb = (int)p.knob("hb", 30);
		enforce = p.knob("enforce", 1) != 0; cfg_send = (unsigned)p.knob("cfg_send", 0); cfg_recv = (unsigned)p.knob("cfg_recv", 0);
		net_seed = (uint64_t)p.knob("net_seed", 1); tweak = p.knob("tweak_outbound", 0) != 0;
		net.short_read = p.knob("short_read_pm") / 1000.0; net.short_write = p.knob("short_write_pm") / 1000.0; net.eagain = p.knob("eagain_pm") / 1000.0; net.dribble = p.knob("dribble_pm") / 1000.0;
	}
	static void draw_net_knobs(Plan& p, sim::Rng& rng)
	{
		p.knobs["net_seed"] = (int64_t)(rng.next() >> 2);
		p.knobs["short_read_pm"] = rng.chance(0.5) ? rng.range(0, 500) : 0;
		p.knobs["short_write_pm"] = rng.chance(0.4) ? rng.range(0, 500) : 0;
		p.knobs["eagain_pm"] = rng.chance(0.25) ? rng.range(5, 100) : 0;
		p.knobs["dribble_pm"] = rng.chance(0.15) ? rng.range(0, 200) : 0;
	}

	Persister *open_persister()
	{
		if (pers == 1) return new MemoryPersister;
		if (pers == 2) { auto *fp = new FilePersister; fp->initialise(dir, "ses.db", false); return fp; }
		return nullptr;
	}

	// what a restarted process would find: a second FilePersister instance over the same files (nullptr for other stores)
	std::unique_ptr<Persister> durable_view()
	{
		if (pers != 2) return nullptr;
		std::unique_ptr<FilePersister> fp(new FilePersister);
		if (!fp->initialise(dir, "ses.db", false)) return nullptr;
		return std::unique_ptr<Persister>(fp.release());
	}

	// bring a connection up: new socket, (new or kept) session, new connection; the session starts (an initiator sends its
	// Logon); the Logon exchange is completed by peer_logon()
	void connect(bool fresh_session = true)
	{
		++conn_no;
		impl = new SimSock(net_seed + conn_no * 7919); impl->cfg = net; impl->peer_ip = peer_ip;
		sock = new Poco::Net::StreamSocket(impl);
		Poco::Net::SocketAddress addr("127.0.0.1", 5000);
		peer.sock = impl; peer.me = peer_id; peer.them = ses_id; peer.parsed = 0;
		if (fresh_session)
		{
			if (!per && pers) per = open_persister();
			if (initiator) ses = new Node("ses", UTEST::ctx(), SessionID(f8String("FIX.4.2"), f8String(ses_id), f8String(peer_id)), per);
			else ses = new Node("ses", UTEST::ctx(), sender_comp_id(ses_id), per);
			LoginParameters lp = login_params(hb, enforce); lp._always_seqnum_assign = always_assign; lp._reset_sequence_numbers = reset_flag; lp._clients = clients;
			ses->set_login_parameters(lp); ses->tweak_outbound = tweak;
		}
		if (initiator) conn = new ClientConnection(sock, addr, *ses, (unsigned)hb, (ProcessModel)pm);
		else conn = new ServerConnection(sock, addr, *ses, (unsigned)hb, (ProcessModel)pm);
		ses->start(conn, false, cfg_send, cfg_recv);
		settle();
	}

	void pump() { if (pm == pm_coro && conn) { int guard = 0; while (!impl->rx.empty() && !ses->is_shutdown() && guard++ < 10000) conn->reader_execute(); } }

	// wait for quiescence at the current instant, collect what the session wrote
	void settle()
	{
		pump();
		sim::settle();
		pump();
		collect();
	}
	void collect()
	{
		if (!impl) return;
		std::vector<Msg> fresh;
		size_t before = peer.parsed;
		if (!peer.poll(fresh)) { if (framing_error.empty()) framing_error = peer.last_error; return; }
		size_t off = before;
		for (auto& m : fresh)
		{
			off += m.raw.size(); int64_t t = sim::now_ns();
			for (auto& mk : impl->tx_marks) if (mk.second >= off) { t = mk.first; break; }
			out.push_back(Out{m, t, out.size(), conn_no});
			sim::trace("wire " + m.brief());
		}
		for (size_t i = deliv.size(); ses && i < ses->delivered.size() + deliv_base; ++i) deliv.push_back(ses->delivered[i - deliv_base]);
	}
	size_t deliv_base = 0;

	void snap(size_t op_index)
	{
		Snap s{}; s.after_op = op_index; s.t = sim::now_ns(); s.out_n = out.size(); s.deliv_n = deliv.size();
		if (ses) { s.nss = ses->nss(); s.nrs = ses->nrs(); s.state = (int)ses->st(); s.terminated = ses->terminated(); }
		if (per) { unsigned a = 0, b = 0; s.has_ctrl = per->get(a, b); s.cs = a; s.ct = b; }
		s.durable = -1;
		if (per && pers == 2) { auto dv = durable_view(); unsigned a = 0, b = 0; s.durable = dv && dv->get(a, b) ? 1 : 0; s.dcs = a; s.dct = b; }
		snaps.push_back(s);
	}

	// complete the Logon exchange with the scripted peer (returns false if the session did not reach continuous)
	bool peer_logon(const sn::Flds& extra = {})
	{
		if (initiator)
		{
			settle();                                  // the session's Logon is on the wire
			peer.logon(hb, extra);
		}
		else peer.logon(hb, extra);
		settle();
		return ses->st() == States::st_continuous;
	}

	void drop_connection()
	{
		if (!conn) return;
		ses->stop();
		// Session::stop() returns at once when a stop is already in progress on one of the session's own threads (the timer
		// thread aborting after an ignored test request); that thread still uses the connection, so let it get to its sleep
		// before the connection object goes away (an application deleting it earlier crashes fix8: observation, DESIGN section 12)
		sim::settle();
		collect();
		if (ses) { for (auto& s : ses->states) all_states.push_back(s); ses->states.clear(); }
		delete conn; conn = nullptr;
		delete sock; sock = nullptr; impl = nullptr; peer.sock = nullptr;
	}
	void destroy_session()
	{
		if (!ses) return;
		deliv_base += ses->delivered.size();
		delete ses; ses = nullptr;
		delete per; per = nullptr;
	}
	// A pipelined connection is never torn down inside a run: FIXWriter::stop() pushes NULL into the FastFlow queue, which
	// asserts, and a pipelined reader that ended by itself leaves its callback thread spinning for ever. Such a world is
	// abandoned (its parked threads stay parked) and the worker process is recycled now and then. Harnesses that use the
	// pipelined model therefore avoid anything that ends or restarts the session (long silences, restarts).
	bool pipelined() const { return pm == pm_pipeline; }
	static int& abandoned_worlds() { static int n = 0; return n; }
	void teardown()
	{
		collect();
		if (pipelined() && conn) { if (++abandoned_worlds() >= 30) drv::request_recycle(); conn = nullptr; ses = nullptr; per = nullptr; impl = nullptr; return; }
		drop_connection(); destroy_session();
	}

	bool alive() const { return ses && conn && !ses->terminated(); }

	// ---- driver-side actions ------------------------------------------------------------------------------------
	unsigned app_counter = 0;
	std::string next_app_id(const char *pfx = "S") { return std::string(pfx) + std::to_string(++app_counter); }
	bool app_send(const std::string& id) { return ses->send(order(id)); }
	bool app_send_ref(const std::string& id) { if (pipelined()) return app_send(id); std::unique_ptr<Message> m(order(id)); return ses->send(*m); }   // send(Message&) is not permitted when pipelining
	size_t app_batch(const std::vector<std::string>& ids) { std::vector<Message *> v; for (auto& i : ids) v.push_back(order(i)); return ses->send_batch(v, true); }
};

inline const char *state_name(int s) { return Session::get_session_state_string((States::SessionStates)s).c_str(); }

} // namespace sw
