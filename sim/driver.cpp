#include "driver.hpp"
#include <unistd.h>
#include <sys/wait.h>
#include <fcntl.h>
#include <time.h>
#include <cstring>
#include <fstream>
#include <sstream>
#include <set>
#include <algorithm>

// sanitizer defaults: distinct exit code, no leak reports (abandoned worlds leak on purpose)
extern "C" __attribute__((used, visibility("default"))) const char *__asan_default_options() { return "exitcode=77:detect_leaks=0:allocator_may_return_null=1:detect_stack_use_after_return=0"; }
extern "C" __attribute__((used, visibility("default"))) const char *__ubsan_default_options() { return "print_stacktrace=1:halt_on_error=1:exitcode=77"; }
extern "C" __attribute__((used, visibility("default"))) const char *__tsan_default_options() { return "exitcode=66:halt_on_error=0:report_signal_unsafe=0:second_deadlock_stack=1"; }

extern "C" {
int __real_clock_gettime(clockid_t, timespec *);
ssize_t __real_write(int, const void *, size_t);
ssize_t __real_read(int, void *, size_t);
}

namespace drv {

static double wall() { timespec ts; __real_clock_gettime(CLOCK_MONOTONIC, &ts); return ts.tv_sec + ts.tv_nsec * 1e-9; }

js::Val Plan::to_json() const
{
	js::Val v = js::Val::obj();
	v.set("property", prop).set("seed", js::Val((unsigned long long)seed)).set("thorough", thorough);
	js::Val k = js::Val::obj(); for (auto& kv : knobs) k.set(kv.first, js::Val((long long)kv.second)); v.set("knobs", k);
	js::Val o = js::Val::arr();
	for (auto& op : ops)
	{
		js::Val e = js::Val::obj(); e.set("k", op.k);
		js::Val a = js::Val::arr(); for (auto x : op.a) a.push(js::Val((long long)x)); e.set("a", a);
		if (!op.s.empty()) e.set("s", op.s);
		o.push(e);
	}
	v.set("ops", o);
	return v;
}
Plan Plan::from_json(const js::Val& v)
{
	Plan p; p.prop = v.str("property"); p.seed = (uint64_t)v.num("seed"); const js::Val *t = v.get("thorough"); p.thorough = t && t->b;
	if (const js::Val *k = v.get("knobs")) for (auto& kv : k->o) p.knobs[kv.first] = kv.second.i;
	if (const js::Val *o = v.get("ops")) for (auto& e : o->a)
	{
		Op op; op.k = e.str("k"); if (const js::Val *a = e.get("a")) for (auto& x : a->a) op.a.push_back(x.i); op.s = e.str("s");
		p.ops.push_back(op);
	}
	return p;
}
uint64_t Plan::hash() const
{
	std::string s = to_json().dump(); uint64_t h = 1469598103934665603ull;
	for (unsigned char c : s) { h ^= c; h *= 1099511628211ull; }
	return h;
}

void draw_sched_knobs(Plan& p, sim::Rng& rng, bool concurrent)
{
	p.knobs["sched_seed"] = (int64_t)(rng.next() >> 1);
	if (!concurrent) { p.knobs["policy"] = sim::POL_RANDOM; p.knobs["p_preempt_pm"] = 0; return; }
	int r = (int)rng.below(10);
	p.knobs["policy"] = r < 5 ? sim::POL_RANDOM : r < 8 ? sim::POL_PCT : sim::POL_RUNTOBLOCK;
	static const int ps[] = { 20, 50, 100, 200, 350, 600 };
	p.knobs["p_preempt_pm"] = ps[rng.below(6)];
	p.knobs["pct_depth"] = 1 + (int64_t)rng.below(4);
}

sim::Config sim_config(const Plan& p, bool verbose)
{
	sim::Config c;
	c.sched_seed = (uint64_t)p.knob("sched_seed", 1);
	c.policy = (int)p.knob("policy", sim::POL_RANDOM);
	c.p_preempt = p.knob("p_preempt_pm", 200) / 1000.0;
	c.pct_depth = (int)p.knob("pct_depth", 3);
	c.start_ns = 1767571200ll * 1000000000ll + p.knob("start_off_ms", 0) * 1000000ll;
	c.step_budget = (uint64_t)p.knob("step_budget", 1500000);
	c.keep_trace = verbose;
	return c;
}

void collect(Result& r)
{
	r.trace_hash = sim::trace_hash(); r.dec_hash = sim::decision_hash(); r.steps = sim::steps(); r.preempt = sim::preemptions();
	for (auto& kv : sim::counters()) r.counters[kv.first] += kv.second;
}

// ------------------------------------------------------------------------------------------------
static long g_cur_idx = -1; static int g_fatal_fd = -1; static bool g_recycle = false;
void request_recycle() { g_recycle = true; }
static void fatal_hook(const char *kind)
{
	if (g_fatal_fd >= 0) { std::string s = std::string("hang\t") + kind + "\n"; (void)!__real_write(g_fatal_fd, s.data(), s.size()); }
	else { printf("V %ld hang\t%s\tsimulated world stopped making progress (%s)\nFATAL %ld\n", g_cur_idx, kind, kind, g_cur_idx); fflush(stdout); }
}

static Plan make_plan(Harness& h, uint64_t seed, long idx, bool thorough)
{
	uint64_t ps = sim::mix64(seed, (uint64_t)idx);
	sim::Rng rng(ps);
	Plan p = h.generate(rng, thorough);
	p.prop = h.id(); p.seed = ps; p.thorough = thorough;
	return p;
}

static std::string one_line(std::string s) { for (auto& c : s) if (c == '\n' || c == '\r' || c == '\t') c = ' '; if (s.size() > 600) s.resize(600); return s; }

static int worker(Harness& h, uint64_t seed, long start, long stride, long count, double secs, bool thorough, long detcheck)
{
	sim::on_fatal = fatal_hook;
	double t0 = wall(); long runs = 0, nontriv = 0; std::map<std::string, int64_t> agg; double sim_s = 0; uint64_t steps = 0, preempt = 0;
	int samples = 0;
	for (long k = 0; k < count; ++k)
	{
		if (secs > 0 && wall() - t0 > secs) break;
		long idx = start + k * stride; g_cur_idx = idx;
		printf("S %ld\n", idx); fflush(stdout);
		Plan p = make_plan(h, seed, idx, thorough);
		Result r = h.run(p, false);
		if (!r.v.empty() || (detcheck > 0 && k % detcheck == 0))
		{
			Result r2 = h.run(p, false);
			if (r2.trace_hash != r.trace_hash || r2.v.size() != r.v.size()) { printf("NONDET %ld %016llx %016llx\n", idx, (unsigned long long)r.trace_hash, (unsigned long long)r2.trace_hash); fflush(stdout); }
		}
		++runs; if (r.nontrivial) ++nontriv; sim_s += r.sim_ns / 1e9; steps += r.steps; preempt += r.preempt;
		for (auto& kv : r.counters) agg[kv.first] += kv.second;
		printf("R %ld %016llx %016llx %016llx %d %llu %lld %zu\n", idx, (unsigned long long)p.hash(), (unsigned long long)r.trace_hash, (unsigned long long)r.dec_hash,
			r.nontrivial ? 1 : 0, (unsigned long long)r.steps, (long long)(r.sim_ns / 1000000), r.v.size());
		for (auto& v : r.v) printf("V %ld %s\t%s\t%s\n", idx, v.cls.c_str(), one_line(v.sig).c_str(), one_line(v.detail).c_str());
		if (r.nontrivial && samples < 2) { ++samples; js::Val s = p.to_json(); s.set("run_index", js::Val((long long)idx)); printf("SAMPLE %s\n", s.dump().c_str()); }
		fflush(stdout);
		if (g_recycle) break;
	}
	js::Val st = js::Val::obj();
	st.set("runs", js::Val((long long)runs)).set("nontrivial", js::Val((long long)nontriv)).set("sim_s", js::Val(sim_s))
	  .set("steps", js::Val((unsigned long long)steps)).set("preemptions", js::Val((unsigned long long)preempt)).set("wall_s", js::Val(wall() - t0));
	js::Val c = js::Val::obj(); for (auto& kv : agg) c.set(kv.first, js::Val((long long)kv.second)); st.set("counters", c);
	printf("STATS %s\n", st.dump().c_str()); fflush(stdout);
	return g_recycle ? 5 : 0;
}

static std::string slurp(const std::string& f) { std::ifstream i(f); std::stringstream ss; ss << i.rdbuf(); return ss.str(); }

static int replay(Harness& h, const Plan& p, bool verbose)
{
	sim::on_fatal = fatal_hook; g_cur_idx = 0;
	Result r = h.run(p, verbose);
	if (verbose) for (auto& l : sim::trace_log()) printf("  %s\n", l.c_str());
	js::Val o = js::Val::obj();
	o.set("trace_hash", js::Val((unsigned long long)r.trace_hash)).set("steps", js::Val((unsigned long long)r.steps)).set("nontrivial", r.nontrivial);
	js::Val c = js::Val::obj(); for (auto& kv : r.counters) c.set(kv.first, js::Val((long long)kv.second)); o.set("counters", c);
	printf("RESULT %s\n", o.dump().c_str());
	for (auto& v : r.v) printf("V 0 %s\t%s\t%s\n", v.cls.c_str(), one_line(v.sig).c_str(), one_line(v.detail).c_str());
	fflush(stdout);
	return r.v.empty() ? 0 : 10;
}

// run one plan in a forked child, return the (class, sig) pairs it produced
static std::vector<std::pair<std::string, std::string>> run_forked(Harness& h, const Plan& p)
{
	int fds[2]; if (pipe(fds)) return {};
	fflush(stdout); fflush(stderr);
	pid_t pid = fork();
	if (pid == 0)
	{
		close(fds[0]); g_fatal_fd = fds[1]; sim::on_fatal = fatal_hook;
		int dn = open("/dev/null", 1); if (dn >= 0) { dup2(dn, 2); dup2(dn, 1); }
		Result r = h.run(p, false);
		std::string s; for (auto& v : r.v) s += v.cls + "\t" + one_line(v.sig) + "\n";
		(void)!__real_write(fds[1], s.data(), s.size());
		_exit(r.v.empty() ? 0 : 10);
	}
	close(fds[1]);
	std::string out; char buf[4096]; ssize_t n;
	while ((n = __real_read(fds[0], buf, sizeof buf)) > 0) out.append(buf, n);
	close(fds[0]);
	int st = 0; waitpid(pid, &st, 0);
	std::vector<std::pair<std::string, std::string>> res;
	std::istringstream is(out); std::string line;
	while (std::getline(is, line)) { size_t t = line.find('\t'); res.emplace_back(line.substr(0, t), t == std::string::npos ? "" : line.substr(t + 1)); }
	bool normal = WIFEXITED(st) && (WEXITSTATUS(st) == 0 || WEXITSTATUS(st) == 10 || WEXITSTATUS(st) == 3);
	if (!normal) res.emplace_back("abort", WIFSIGNALED(st) ? "signal " + std::to_string(WTERMSIG(st)) : "exit " + std::to_string(WEXITSTATUS(st)));
	return res;
}

static int minimise(Harness& h, Plan p, const std::string& out, const std::string& cls, const std::string& sig)
{
	double t0 = wall(); int evals = 0; const int max_evals = 400; const double max_secs = 45;
	auto fails = [&](Plan& cand) -> bool
	{
		int64_t base = cand.knob("sched_seed", 1);
		for (int k = 0; k <= h.sched_retries(); ++k)
		{
			if (evals >= max_evals || wall() - t0 > max_secs) return false;
			++evals;
			cand.knobs["sched_seed"] = base + k * 7919;
			for (auto& cs : run_forked(h, cand)) if (cs.first == cls && (sig.empty() || cls == "abort" || cs.second == sig)) return true;
		}
		cand.knobs["sched_seed"] = base;
		return false;
	};
	Plan cur = p;
	if (!fails(cur)) { fprintf(stderr, "minimise: original plan does not reproduce %s\n", cls.c_str()); return 2; }
	bool changed = true;
	while (changed && evals < max_evals && wall() - t0 < max_secs)
	{
		changed = false;
		// ddmin over ops
		for (size_t chunk = std::max<size_t>(cur.ops.size() / 2, 1); chunk >= 1; chunk /= 2)
		{
			for (size_t at = 0; at < cur.ops.size();)
			{
				Plan c = cur; size_t removed = 0;
				std::vector<Op> keep;
				for (size_t i = 0; i < cur.ops.size(); ++i)
					if (i >= at && i < at + chunk && !h.keep_op(cur, i)) ++removed; else keep.push_back(cur.ops[i]);
				if (!removed) { at += chunk; continue; }
				c.ops = keep;
				if (fails(c)) { cur = c; changed = true; } else at += chunk;
			}
			if (chunk == 1) break;
		}
		// simpler ops
		for (size_t i = 0; i < cur.ops.size(); ++i)
			for (auto& alt : h.simpler(cur.ops[i]))
			{
				Plan c = cur; c.ops[i] = alt;
				if (fails(c)) { cur = c; changed = true; break; }
			}
		// knobs toward their floor
		for (auto& kf : h.knob_floor())
		{
			int64_t v = cur.knob(kf.first, kf.second);
			while (v != kf.second)
			{
				Plan c = cur; c.knobs[kf.first] = kf.second;
				if (fails(c)) { cur = c; changed = true; break; }
				int64_t mid = kf.second + (v - kf.second) / 2; if (mid == v) break;
				c = cur; c.knobs[kf.first] = mid;
				if (fails(c)) { cur = c; v = mid; changed = true; } else break;
			}
		}
		// simplest schedule
		if (cur.knob("policy", 0) != sim::POL_RUNTOBLOCK || cur.knob("p_preempt_pm", 0) != 0)
		{
			Plan c = cur; c.knobs["policy"] = sim::POL_RUNTOBLOCK; c.knobs["p_preempt_pm"] = 0;
			if (fails(c)) { cur = c; changed = true; }
		}
	}
	js::Val v = cur.to_json();
	v.set("violation_class", cls).set("violation_sig", sig).set("minimised_from_ops", js::Val((long long)p.ops.size())).set("minimise_evaluations", js::Val(evals));
	std::ofstream o(out); o << v.dump() << "\n";
	printf("MINIMISED ops %zu -> %zu evals %d\n", p.ops.size(), cur.ops.size(), evals);
	return 0;
}

static int main2(int argc, char **argv, Harness& h);
// never run static destructors: fix8's global logger singleton would join a thread id that has long been reused
int main_(int argc, char **argv, Harness& h) { int rc = main2(argc, argv, h); h.finish(); fflush(stdout); fflush(stderr); _exit(rc); }
static int main2(int argc, char **argv, Harness& h)
{
	uint64_t seed = 1; long start = 0, stride = 1, count = 1, idx = -1, detcheck = 64; double secs = 0; bool thorough = false, verbose = false;
	std::string mode, file, out, cls, sig;
	for (int i = 1; i < argc; ++i)
	{
		std::string a = argv[i];
		auto nx = [&]() -> const char * { return i + 1 < argc ? argv[++i] : ""; };
		if (a == "--worker") mode = "worker";
		else if (a == "--seed") seed = strtoull(nx(), 0, 10);
		else if (a == "--start") start = atol(nx());
		else if (a == "--stride") stride = atol(nx());
		else if (a == "--count") count = atol(nx());
		else if (a == "--secs") secs = atof(nx());
		else if (a == "--detcheck") detcheck = atol(nx());
		else if (a == "--thorough") thorough = true;
		else if (a == "-v") verbose = true;
		else if (a == "--emit") { mode = "emit"; idx = atol(nx()); }
		else if (a == "--one") { mode = "one"; idx = atol(nx()); }
		else if (a == "--replay") { mode = "replay"; file = nx(); }
		else if (a == "--minimise") { mode = "minimise"; file = nx(); out = nx(); }
		else if (a == "--class") cls = nx();
		else if (a == "--sig") sig = nx();
	}
	if (mode == "worker") return worker(h, seed, start, stride, count, secs, thorough, detcheck);
	if (mode == "emit") { printf("%s\n", make_plan(h, seed, idx, thorough).to_json().dump().c_str()); return 0; }
	if (mode == "one") return replay(h, make_plan(h, seed, idx, thorough), verbose);
	if (mode == "replay" || mode == "minimise")
	{
		Plan p;
		try { p = Plan::from_json(js::parse(slurp(file))); } catch (std::exception& e) { fprintf(stderr, "cannot read %s: %s\n", file.c_str(), e.what()); return 2; }
		if (mode == "replay") return replay(h, p, verbose);
		return minimise(h, p, out, cls, sig);
	}
	fprintf(stderr, "usage: %s --worker|--emit i|--one i|--replay f|--minimise in out --class C\n", argv[0]);
	return 2;
}

} // namespace drv
