// Common driver for all harness binaries: plan generation from a seed, worker loop, replay, minimisation.
#pragma once
#include "kernel.hpp"
#include "json.hpp"
#include <map>
#include <string>
#include <vector>

namespace drv {

struct Op
{
	std::string k; std::vector<int64_t> a; std::string s;
	Op() {}
	Op(const std::string& kind, std::vector<int64_t> args = {}, const std::string& str = "") : k(kind), a(std::move(args)), s(str) {}
	int64_t arg(size_t i, int64_t def = 0) const { return i < a.size() ? a[i] : def; }
};

struct Plan
{
	std::string prop; uint64_t seed = 0; bool thorough = false;
	std::map<std::string, int64_t> knobs; std::vector<Op> ops;
	int64_t knob(const std::string& k, int64_t def = 0) const { auto it = knobs.find(k); return it == knobs.end() ? def : it->second; }
	js::Val to_json() const;
	static Plan from_json(const js::Val& v);
	uint64_t hash() const;
};

struct Violation { std::string cls, sig, detail; };

struct Result
{
	std::vector<Violation> v;
	bool nontrivial = false;
	std::map<std::string, int64_t> counters;
	uint64_t trace_hash = 0, dec_hash = 0, steps = 0, preempt = 0; int64_t sim_ns = 0;
	void fail(const std::string& cls, const std::string& sig, const std::string& detail)
	{
		for (auto& x : v) if (x.cls == cls && x.sig == sig) return; // one per (class, signature) per run
		v.push_back(Violation{cls, sig, detail});
	}
	bool has(const std::string& cls) const { for (auto& x : v) if (x.cls == cls) return true; return false; }
};

struct Harness
{
	virtual ~Harness() {}
	virtual const char *id() const = 0;
	virtual Plan generate(sim::Rng& rng, bool thorough) = 0;   // rng = workload stream of this run
	virtual Result run(const Plan& p, bool verbose) = 0;
	virtual int sched_retries() const { return 0; }            // alternate scheduler seeds tried per candidate when minimising
	virtual std::vector<Op> simpler(const Op& op) const { (void)op; return {}; } // simpler variants of one op
	virtual std::vector<std::pair<std::string, int64_t>> knob_floor() const { return {}; } // knobs and the value to shrink toward
	virtual bool keep_op(const Plan& p, size_t i) const { (void)p; (void)i; return false; } // ops minimisation must not drop
	virtual void finish() {}                                                       // called once before the process exits
};

// fills scheduler knobs (sched_seed, policy, p_preempt_pm, pct_depth) into a plan; call from generate()
void draw_sched_knobs(Plan& p, sim::Rng& rng, bool concurrent);
// kernel config from plan knobs
sim::Config sim_config(const Plan& p, bool verbose);
// copy kernel stats/counters into a result (call before sim::end())
void collect(Result& r);

// ask the worker loop to end after the current run (exit code 5): the orchestrator starts a fresh process at the next
// run index. Used by harnesses that abandon parked threads (pipelined connections are never torn down).
void request_recycle();

int main_(int argc, char **argv, Harness& h);

} // namespace drv
