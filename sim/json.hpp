// Minimal JSON value (parse + dump) for replay files and result lines.
#pragma once
#include <cstdint>
#include <cstdio>
#include <cstdlib>
#include <map>
#include <string>
#include <vector>
#include <stdexcept>

namespace js {

struct Val
{
	enum T { NUL, BOOL, INT, DBL, STR, ARR, OBJ } t = NUL;
	bool b = false; int64_t i = 0; double d = 0; std::string s;
	std::vector<Val> a; std::vector<std::pair<std::string, Val>> o;

	Val() {}
	Val(bool v) : t(BOOL), b(v) {}
	Val(int v) : t(INT), i(v) {}
	Val(unsigned v) : t(INT), i(v) {}
	Val(long v) : t(INT), i(v) {}
	Val(unsigned long v) : t(INT), i((int64_t)v) {}
	Val(long long v) : t(INT), i(v) {}
	Val(unsigned long long v) : t(INT), i((int64_t)v) {}
	Val(double v) : t(DBL), d(v) {}
	Val(const char *v) : t(STR), s(v) {}
	Val(const std::string& v) : t(STR), s(v) {}
	static Val arr() { Val v; v.t = ARR; return v; }
	static Val obj() { Val v; v.t = OBJ; return v; }
	Val& push(const Val& v) { t = ARR; a.push_back(v); return *this; }
	Val& set(const std::string& k, const Val& v) { t = OBJ; for (auto& kv : o) if (kv.first == k) { kv.second = v; return *this; } o.emplace_back(k, v); return *this; }
	const Val *get(const std::string& k) const { for (auto& kv : o) if (kv.first == k) return &kv.second; return nullptr; }
	int64_t num(const std::string& k, int64_t def = 0) const { const Val *v = get(k); return v ? (v->t == DBL ? (int64_t)v->d : v->i) : def; }
	std::string str(const std::string& k, const std::string& def = "") const { const Val *v = get(k); return v && v->t == STR ? v->s : def; }

	static void esc(std::string& out, const std::string& s)
	{
		out += '"';
		for (unsigned char c : s)
		{
			if (c == '"') out += "\\\""; else if (c == '\\') out += "\\\\"; else if (c == '\n') out += "\\n"; else if (c == '\r') out += "\\r"; else if (c == '\t') out += "\\t";
			else if (c < 0x20 || c >= 0x7f) { char b[8]; snprintf(b, sizeof b, "\\u%04x", c); out += b; }
			else out += (char)c;
		}
		out += '"';
	}
	void dump(std::string& out) const
	{
		switch (t)
		{
		case NUL: out += "null"; break;
		case BOOL: out += b ? "true" : "false"; break;
		case INT: out += std::to_string(i); break;
		case DBL: { char buf[40]; snprintf(buf, sizeof buf, "%.12g", d); out += buf; } break;
		case STR: esc(out, s); break;
		case ARR: out += '['; for (size_t k = 0; k < a.size(); ++k) { if (k) out += ','; a[k].dump(out); } out += ']'; break;
		case OBJ: out += '{'; for (size_t k = 0; k < o.size(); ++k) { if (k) out += ','; esc(out, o[k].first); out += ':'; o[k].second.dump(out); } out += '}'; break;
		}
	}
	std::string dump() const { std::string s; dump(s); return s; }
};

struct Parser
{
	const char *p, *e;
	explicit Parser(const std::string& s) : p(s.data()), e(s.data() + s.size()) {}
	void ws() { while (p < e && (*p == ' ' || *p == '\n' || *p == '\r' || *p == '\t')) ++p; }
	[[noreturn]] void fail(const char *m) { throw std::runtime_error(std::string("json: ") + m); }
	Val parse()
	{
		ws(); if (p >= e) fail("eof");
		if (*p == '{')
		{
			Val v = Val::obj(); ++p; ws();
			if (p < e && *p == '}') { ++p; return v; }
			for (;;)
			{
				ws(); Val k = parse(); if (k.t != Val::STR) fail("key"); ws(); if (p >= e || *p != ':') fail(":"); ++p;
				v.o.emplace_back(k.s, parse()); ws();
				if (p < e && *p == ',') { ++p; continue; }
				if (p < e && *p == '}') { ++p; return v; }
				fail("obj");
			}
		}
		if (*p == '[')
		{
			Val v = Val::arr(); ++p; ws();
			if (p < e && *p == ']') { ++p; return v; }
			for (;;)
			{
				v.a.push_back(parse()); ws();
				if (p < e && *p == ',') { ++p; continue; }
				if (p < e && *p == ']') { ++p; return v; }
				fail("arr");
			}
		}
		if (*p == '"')
		{
			Val v; v.t = Val::STR; ++p;
			while (p < e && *p != '"')
			{
				if (*p == '\\')
				{
					++p; if (p >= e) fail("esc");
					switch (*p)
					{
					case 'n': v.s += '\n'; break; case 'r': v.s += '\r'; break; case 't': v.s += '\t'; break;
					case 'b': v.s += '\b'; break; case 'f': v.s += '\f'; break;
					case 'u': { if (e - p < 5) fail("u"); unsigned c = (unsigned)strtoul(std::string(p + 1, 4).c_str(), 0, 16); v.s += (char)(c & 0xff); p += 4; } break;
					default: v.s += *p;
					}
					++p;
				}
				else v.s += *p++;
			}
			if (p >= e) { fail("str"); } ++p; return v;
		}
		if (!strncmp_(p, e, "true")) { p += 4; return Val(true); }
		if (!strncmp_(p, e, "false")) { p += 5; return Val(false); }
		if (!strncmp_(p, e, "null")) { p += 4; return Val(); }
		const char *q = p; bool dbl = false;
		while (q < e && (*q == '-' || *q == '+' || *q == '.' || *q == 'e' || *q == 'E' || (*q >= '0' && *q <= '9'))) { if (*q == '.' || *q == 'e' || *q == 'E') dbl = true; ++q; }
		if (q == p) fail("value");
		std::string n(p, q); p = q;
		if (dbl) return Val(strtod(n.c_str(), 0));
		return Val((long long)strtoll(n.c_str(), 0, 10));
	}
	static int strncmp_(const char *p, const char *e, const char *lit) { size_t n = 0; while (lit[n]) ++n; if ((size_t)(e - p) < n) return 1; for (size_t i = 0; i < n; ++i) if (p[i] != lit[i]) return 1; return 0; }
};

inline Val parse(const std::string& s) { Parser p(s); return p.parse(); }

} // namespace js
