// Deterministic simulation kernel (see kernel.hpp). Link with:
//  -Wl,--wrap=pthread_create,--wrap=pthread_join,--wrap=pthread_spin_lock,--wrap=pthread_spin_trylock,
//  --wrap=pthread_spin_unlock,--wrap=pthread_mutex_lock,--wrap=pthread_mutex_trylock,--wrap=pthread_mutex_unlock,
//  --wrap=sched_yield,--wrap=pthread_yield,--wrap=clock_gettime,--wrap=clock_nanosleep,--wrap=nanosleep,
//  --wrap=_ZNSt6chrono3_V212system_clock3nowEv
#include "kernel.hpp"
#include <pthread.h>
#include <semaphore.h>
#include <linux/futex.h>
#include <sys/syscall.h>
#include <unistd.h>
#include <sched.h>
#include <time.h>
#include <errno.h>
#include <cstdio>
#include <cstdlib>
#include <cstring>
#include <queue>
#include <algorithm>
#include <set>

extern "C" {
int __real_pthread_create(pthread_t *, const pthread_attr_t *, void *(*)(void *), void *);
int __real_pthread_join(pthread_t, void **);
int __real_pthread_spin_lock(pthread_spinlock_t *);
int __real_pthread_spin_trylock(pthread_spinlock_t *);
int __real_pthread_spin_unlock(pthread_spinlock_t *);
int __real_pthread_mutex_lock(pthread_mutex_t *);
int __real_pthread_mutex_trylock(pthread_mutex_t *);
int __real_pthread_mutex_unlock(pthread_mutex_t *);
int __real_sched_yield(void);
int __real_pthread_yield(void);
int __real_clock_gettime(clockid_t, struct timespec *);
int __real_clock_nanosleep(clockid_t, int, const struct timespec *, struct timespec *);
int __real_nanosleep(const struct timespec *, struct timespec *);
int64_t __real__ZNSt6chrono3_V212system_clock3nowEv();
}

namespace sim {

enum St { RUN, SLEEP, WAIT, JOIN, POLL, IDLEWAIT, DONE };

#ifdef SIMK_FUTEX
// TSan flavour: hand-off invisible to TSan (no happens-before derived from the serialisation)
struct hsem { int v; };
#define NOTSAN __attribute__((no_sanitize("thread")))
NOTSAN static void hs_init(hsem *s) { s->v = 0; }
NOTSAN static void hs_post(hsem *s) { __atomic_store_n(&s->v, 1, __ATOMIC_RELAXED); syscall(SYS_futex, &s->v, FUTEX_WAKE_PRIVATE, 1, 0, 0, 0); }
NOTSAN static void hs_wait(hsem *s) { for (;;) { if (__atomic_load_n(&s->v, __ATOMIC_RELAXED) == 1) { __atomic_store_n(&s->v, 0, __ATOMIC_RELAXED); return; } syscall(SYS_futex, &s->v, FUTEX_WAIT_PRIVATE, 0, 0, 0, 0); } }
#else
typedef sem_t hsem;
#define NOTSAN
static void hs_init(hsem *s) { sem_init(s, 0, 0); }
static void hs_post(hsem *s) { sem_post(s); }
static void hs_wait(hsem *s) { while (sem_wait(s) != 0) {} }
#endif

struct Task
{
	int id = 0; hsem sem; St st = RUN; int64_t wake_at = -1; const void *obj = nullptr; Task *target = nullptr;
	uint64_t poll_epoch = 0; pthread_t real{}; bool timed_out = false, joined = false;
	void *(*fn)(void *) = nullptr; void *arg = nullptr;
	int64_t prio = 0; uint64_t stalled_until = 0;
};
struct Ev { int64_t at; uint64_t seq; std::function<void()> fn; bool operator<(const Ev& o) const { return at != o.at ? at > o.at : seq > o.seq; } };

static bool g_active = false;
static std::vector<Task *> g_tasks;
static thread_local Task *t_self = nullptr;
static int64_t g_now = 0;
static uint64_t g_epoch = 1, g_steps = 0, g_evseq = 0, g_hash = 0, g_dhash = 0, g_preempt = 0;
static Rng g_rng;
static Config g_cfg;
static std::priority_queue<Ev> g_events;
static std::vector<std::string> g_trace;
static std::map<std::string, int64_t> g_counters;
static bool g_idle_confirmed = false;
static std::vector<uint64_t> g_pct_points; static int64_t g_pct_low = -1;
static std::set<int> g_must_sites;
void (*on_fatal)(const char *kind) = nullptr;
void (*point_observer)(int, unsigned long, int) = nullptr;

bool active() { return g_active && t_self; }
bool in_world() { return g_active; }
int task_id() { return t_self ? t_self->id : -1; }
int64_t now_ns() { return g_now; }
uint64_t steps() { return g_steps; }
uint64_t preemptions() { return g_preempt; }
uint64_t trace_hash() { return g_hash; }
uint64_t decision_hash() { return g_dhash; }
const std::vector<std::string>& trace_log() { return g_trace; }
std::map<std::string, int64_t>& counters() { return g_counters; }
void count(const char *key, int64_t n) { g_counters[key] += n; }
void set_must_switch_sites(const std::vector<int>& sites) { g_must_sites.clear(); g_must_sites.insert(sites.begin(), sites.end()); }
int live_tasks() { int n = 0; for (auto *t : g_tasks) if (t->id != 0 && t->st != DONE) ++n; return n; }

static inline void fnv(uint64_t& h, const void *p, size_t n) { const unsigned char *c = (const unsigned char *)p; for (size_t i = 0; i < n; ++i) { h ^= c[i]; h *= 1099511628211ull; } }

void trace(const std::string& s)
{
	char pfx[64];
	int n = snprintf(pfx, sizeof pfx, "%lld.%09lld T%d ", (long long)(g_now / 1000000000ll), (long long)(g_now % 1000000000ll), t_self ? t_self->id : -1);
	fnv(g_hash, pfx, n); fnv(g_hash, s.data(), s.size());
	if (g_cfg.keep_trace) g_trace.push_back(std::string(pfx) + s);
}

static void fatal(const char *kind)
{
	if (g_cfg.keep_trace)
	{
		fprintf(stderr, "SIM %s at t=%lld steps=%llu\n", kind, (long long)g_now, (unsigned long long)g_steps);
		for (auto *t : g_tasks) fprintf(stderr, "  task %d st=%d wake=%lld\n", t->id, (int)t->st, (long long)t->wake_at);
		for (size_t i = g_trace.size() > 40 ? g_trace.size() - 40 : 0; i < g_trace.size(); ++i) fprintf(stderr, "  %s\n", g_trace[i].c_str());
	}
	if (on_fatal) on_fatal(kind);
	fflush(stdout); fflush(stderr);
	_exit(3);
}

static inline void progress() { ++g_epoch; g_idle_confirmed = false; }

static Task *choose(Task **elig, int n, bool forced)
{
	Task *c;
	if (g_cfg.policy == POL_PCT)
	{
		c = elig[0];
		for (int i = 1; i < n; ++i) if (elig[i]->prio > c->prio) c = elig[i];
		// a poller that keeps the top priority would starve nobody (it is ineligible until progress)
	}
	else
		c = elig[g_rng.below(n)];
	(void)forced;
	return c;
}

static std::function<bool()> g_watch; static Task *g_watcher = nullptr; static bool g_watch_hit = false;
static Task *watch_fire()
{
	if (!g_watcher || (g_watcher->st != IDLEWAIT && g_watcher->st != SLEEP) || !g_watch || !g_watch()) return nullptr;
	Task *w = g_watcher; g_watcher = nullptr; g_watch_hit = true; w->st = RUN; w->wake_at = -1;
	return w;
}

static Task *pick()
{
	for (;;)
	{
		if (g_watcher) if (Task *w = watch_fire()) return w;
		Task *elig[512]; int n = 0; bool stalled = false;
		for (auto *t : g_tasks)
			if (t->st == RUN || (t->st == POLL && t->poll_epoch != g_epoch))
			{
				if (t->stalled_until > g_steps) { stalled = true; continue; }
				if (n < 512) elig[n++] = t;
			}
		if (n) return choose(elig, n, true);
		if (stalled) { for (auto *t : g_tasks) t->stalled_until = 0; continue; }
		bool anypoll = false; for (auto *t : g_tasks) if (t->st == POLL) anypoll = true;
		Task *idle = nullptr;
		for (auto *t : g_tasks) if (t->st == IDLEWAIT) idle = t;
		if (idle)
		{
			if (anypoll && !g_idle_confirmed) { ++g_epoch; g_idle_confirmed = true; continue; } // pollers get one more look
			g_idle_confirmed = false;
			idle->st = RUN; continue;
		}
		int64_t nt = -1;
		for (auto *t : g_tasks)
			if ((t->st == SLEEP || t->st == WAIT) && t->wake_at >= 0 && (nt < 0 || t->wake_at < nt)) nt = t->wake_at;
		if (!g_events.empty() && (nt < 0 || g_events.top().at < nt)) nt = g_events.top().at;
		if (nt < 0)
		{
			if (anypoll) { ++g_epoch; ++g_steps; if (g_steps > g_cfg.step_budget) fatal("hang"); continue; }
			fatal("deadlock");
		}
		if (nt > g_now) g_now = nt;
		progress();
		while (!g_events.empty() && g_events.top().at <= g_now) { Ev e = g_events.top(); g_events.pop(); e.fn(); }
		for (auto *t : g_tasks)
			if ((t->st == SLEEP || t->st == WAIT) && t->wake_at >= 0 && t->wake_at <= g_now) { t->timed_out = (t->st == WAIT); t->st = RUN; t->wake_at = -1; }
	}
}

NOTSAN static void switch_to(Task *n)
{
	++g_steps;
	if (g_steps > g_cfg.step_budget) fatal("hang");
	if (g_cfg.policy == POL_PCT)
		for (uint64_t p : g_pct_points) if (p == g_steps && t_self) { t_self->prio = g_pct_low--; }
	unsigned char id = (unsigned char)n->id; fnv(g_dhash, &id, 1);
	if (n == t_self) return;
	++g_preempt;
	Task *me = t_self;
	hs_post(&n->sem);
	hs_wait(&me->sem);
}

static void block() { Task *n = pick(); switch_to(n); }

void yield_point(int)
{
	if (!active()) return;
	if (g_watcher && t_self != g_watcher) if (Task *w = watch_fire()) { switch_to(w); return; }
	double p = g_cfg.p_preempt;
	if (g_cfg.policy == POL_RUNTOBLOCK) p *= 0.05;
	if (g_cfg.policy == POL_PCT)
	{
		// PCT: always re-evaluate priorities (cheap when the current task still has the top priority)
		block(); return;
	}
	if (g_rng.chance(p)) block();
}

void must_yield()
{
	if (!active()) return;
	t_self->st = POLL; t_self->poll_epoch = g_epoch;
	Task *n = pick(); switch_to(n); t_self->st = RUN;
}

void block_on(const void *obj, int64_t timeout_ns)
{
	Task *me = t_self; me->st = WAIT; me->obj = obj; me->timed_out = false; me->wake_at = timeout_ns >= 0 ? g_now + timeout_ns : -1;
	progress();
	block();
	me->obj = nullptr;
}
bool timed_out() { return t_self && t_self->timed_out; }

void wake_all(const void *obj)
{
	if (!g_active) return;
	progress();
	for (auto *t : g_tasks) if (t->st == WAIT && t->obj == obj) { t->st = RUN; t->wake_at = -1; t->timed_out = false; }
}

// lock release: a released lock with waiters is handed to a waiter half of the time (whatever the policy); otherwise a
// thread that re-acquires the lock in a loop would starve the waiters for ever under run-to-block or PCT scheduling,
// which no real spin lock or mutex does
static void unlock_wake(const void *obj)
{
	progress();
	Task *w[64]; int n = 0;
	for (auto *t : g_tasks) if (t->st == WAIT && t->obj == obj) { t->st = RUN; t->wake_at = -1; t->timed_out = false; if (n < 64) w[n++] = t; }
	if (n && t_self && g_rng.chance(0.5)) { switch_to(w[g_rng.below(n)]); return; }
	yield_point();
}

void at(int64_t t_ns, std::function<void()> fn) { g_events.push(Ev{t_ns, ++g_evseq, std::move(fn)}); }

void advance(int64_t dt)
{
	if (dt <= 0) { yield_point(); return; }
	Task *me = t_self; me->st = SLEEP; me->wake_at = g_now + dt; progress(); block();
}

void settle()
{
	Task *me = t_self; me->st = IDLEWAIT; block();
}

bool settle_watch(const std::function<bool()>& pred, int64_t max_ns)
{
	if (pred()) return true;
	Task *me = t_self; g_watch = pred; g_watch_hit = false; g_watcher = me;
	if (max_ns > 0) { me->st = SLEEP; me->wake_at = g_now + max_ns; progress(); } else me->st = IDLEWAIT;
	block();
	g_watcher = nullptr; g_watch = nullptr;
	return g_watch_hit;
}

bool settle_until(const std::function<bool()>& pred, int64_t max_ns, int64_t step_ns)
{
	int64_t deadline = g_now + max_ns;
	for (;;)
	{
		settle();
		if (pred()) return true;
		if (g_now >= deadline) return false;
		advance(std::min(step_ns, deadline - g_now));
	}
}

void stall_task(int id, uint64_t nsteps) { for (auto *t : g_tasks) if (t->id == id) t->stalled_until = g_steps + nsteps; }

void begin(const Config& cfg)
{
	g_cfg = cfg; g_rng = Rng(cfg.sched_seed); g_now = cfg.start_ns; g_epoch = 1; g_steps = 0; g_preempt = 0;
	g_hash = 1469598103934665603ull; g_dhash = 1469598103934665603ull; g_trace.clear(); g_counters.clear(); g_idle_confirmed = false;
	while (!g_events.empty()) g_events.pop();
	g_watcher = nullptr; g_watch = nullptr; g_watch_hit = false;
	g_pct_points.clear(); g_pct_low = -1;
	if (cfg.policy == POL_PCT) for (int i = 0; i < cfg.pct_depth; ++i) g_pct_points.push_back(1 + g_rng.below(4000));
	Task *t = new Task; t->id = 0; hs_init(&t->sem); t->real = pthread_self(); t->prio = (int64_t)(g_rng.next() >> 2);
	g_tasks.push_back(t); t_self = t; g_active = true;
}

void end()
{
	for (auto *t : g_tasks) if (t == t_self || t->st == DONE) delete t; // parked tasks are abandoned (leaked) on purpose
	g_tasks.clear(); t_self = nullptr; g_active = false;
	while (!g_events.empty()) g_events.pop();
}

static thread_local int t_alloc_depth = 0;
static pthread_key_t g_exit_key; static bool g_exit_key_ok = false;

// last step of a task: mark it DONE, wake joiners, pass the baton on
NOTSAN static void finish_task(Task *me)
{
	me->st = DONE; progress();
	for (auto *t : g_tasks) if (t->st == JOIN && t->target == me) t->st = RUN;
	Task *n = pick();
	++g_steps;
	unsigned char id = (unsigned char)n->id; fnv(g_dhash, &id, 1);
	t_self = nullptr;
	hs_post(&n->sem);
}
NOTSAN static void exit_key_destructor(void *p) { if (p && g_active) finish_task(static_cast<Task *>(p)); }
void init_thread_exit_key() { if (!g_exit_key_ok && pthread_key_create(&g_exit_key, exit_key_destructor) == 0) g_exit_key_ok = true; }

NOTSAN static void *trampoline(void *p)
{
	Task *me = static_cast<Task *>(p);
	t_self = me;
	hs_wait(&me->sem);
	void *r = me->fn(me->arg);
	if (g_exit_key_ok)
	{
		// thread-specific-data destructors of the code under test (FastFlow's per-thread allocator) run after this
		// function returns; the task keeps the baton while they do (hook points inside them are ignored) and hands it on
		// from the kernel's own key destructor, which glibc runs after theirs
		++t_alloc_depth;
		pthread_setspecific(g_exit_key, me);
		return r;
	}
	finish_task(me);
	return r;
}

} // namespace sim

using namespace sim;

extern "C" {

int __wrap_pthread_create(pthread_t *th, const pthread_attr_t *attr, void *(*fn)(void *), void *arg)
{
	if (!active()) return __real_pthread_create(th, attr, fn, arg);
	Task *t = new Task; t->id = (int)g_tasks.size(); hs_init(&t->sem); t->fn = fn; t->arg = arg; t->prio = (int64_t)(g_rng.next() >> 2);
	int r = __real_pthread_create(th, attr, trampoline, t);
	if (r) { delete t; return r; }
	t->real = *th; g_tasks.push_back(t);
	progress();
	yield_point();
	return 0;
}

int __wrap_pthread_join(pthread_t th, void **ret)
{
	if (active())
	{
		Task *tg = nullptr;
		for (auto *t : g_tasks) if (t != t_self && t->id != 0 && !t->joined && pthread_equal(t->real, th)) tg = t;
		if (!tg) return ESRCH; // never started in this world, or already joined (fix8 joins such threads in destructors)
		if (tg->st != DONE) { t_self->st = JOIN; t_self->target = tg; progress(); Task *n = pick(); switch_to(n); }
		tg->joined = true;
	}
	return __real_pthread_join(th, ret);
}

int __wrap_pthread_spin_lock(pthread_spinlock_t *l)
{
	if (!active()) return __real_pthread_spin_lock(l);
	while (__real_pthread_spin_trylock(l) != 0) block_on((const void *)l);
	yield_point();
	return 0;
}
int __wrap_pthread_spin_trylock(pthread_spinlock_t *l) { int r = __real_pthread_spin_trylock(l); yield_point(); return r; }
int __wrap_pthread_spin_unlock(pthread_spinlock_t *l)
{
	int r = __real_pthread_spin_unlock(l);
	if (active()) unlock_wake((const void *)l);
	return r;
}
int __wrap_pthread_mutex_lock(pthread_mutex_t *m)
{
	if (!active()) return __real_pthread_mutex_lock(m);
	while (__real_pthread_mutex_trylock(m) != 0) block_on(m);
	yield_point();
	return 0;
}
int __wrap_pthread_mutex_trylock(pthread_mutex_t *m) { int r = __real_pthread_mutex_trylock(m); yield_point(); return r; }
int __wrap_pthread_mutex_unlock(pthread_mutex_t *m)
{
	int r = __real_pthread_mutex_unlock(m);
	if (active()) unlock_wake(m);
	return r;
}
int __wrap_sched_yield(void)
{
	if (!active()) return __real_sched_yield();
	must_yield();
	return 0;
}
int __wrap_pthread_yield(void) { return __wrap_sched_yield(); }

int __wrap_clock_gettime(clockid_t c, struct timespec *ts)
{
	if (!active()) return __real_clock_gettime(c, ts);
	ts->tv_sec = g_now / 1000000000ll; ts->tv_nsec = g_now % 1000000000ll;
	return 0;
}
int __wrap_clock_nanosleep(clockid_t c, int flags, const struct timespec *req, struct timespec *rem)
{
	if (!active()) return __real_clock_nanosleep(c, flags, req, rem);
	int64_t t = req->tv_sec * 1000000000ll + req->tv_nsec;
	if (!(flags & TIMER_ABSTIME)) t += g_now;
	if (t <= g_now) { yield_point(); return 0; }
	t_self->st = SLEEP; t_self->wake_at = t; progress();
	Task *n = pick(); switch_to(n);
	return 0;
}
int __wrap_nanosleep(const struct timespec *req, struct timespec *rem) { return __wrap_clock_nanosleep(CLOCK_MONOTONIC, 0, req, rem); }

int64_t __wrap__ZNSt6chrono3_V212system_clock3nowEv()
{
	if (!active()) return __real__ZNSt6chrono3_V212system_clock3nowEv();
	return g_now;
}

// FastFlow queue hook (guard FIX8_VERIF in /repo). Sites: see DESIGN.md section 4.
//  4,8,15,20 = retry/spin branches (must switch, or a serialised spinner would never let the awaited thread run)
//  60        = waiter in the FastFlow raw spin lock (must switch)
//  7,19      = publish steps (count as progress for pollers)
void fix8_verif_point(int site, unsigned long val)
{
	// 70/71 bracket the FastFlow allocator: it is a process-wide singleton whose internal queues carry history from
	// earlier runs in the same worker, so hook points inside it must not be scheduling points (replay in a fresh
	// process would otherwise see a different decision sequence). The allocator runs atomically.
	if (site == 70) { ++t_alloc_depth; return; }
	if (site == 71) { if (t_alloc_depth > 0) --t_alloc_depth; return; }
	if (t_alloc_depth > 0) return;
	if (!active()) return;
	if (point_observer) point_observer(site, val, t_self->id);
	if (site == 7 || site == 19) progress();
	if (site == 4 || site == 8 || site == 15 || site == 20 || site == 60 || g_must_sites.count(site)) must_yield(); else yield_point(site);
}

}
