// Deterministic simulation kernel: real pthreads, exactly one runs at a time, a seeded scheduler
// decides who runs next at every intercepted point; discrete-event simulated clock.
#pragma once
#include <cstdint>
#include <functional>
#include <string>
#include <vector>
#include <map>

namespace sim {

struct Rng
{
	uint64_t s;
	explicit Rng(uint64_t seed = 1) : s(seed) {}
	uint64_t next()
	{
		uint64_t z = (s += 0x9E3779B97F4A7C15ull);
		z = (z ^ (z >> 30)) * 0xBF58476D1CE4E5B9ull;
		z = (z ^ (z >> 27)) * 0x94D049BB133111EBull;
		return z ^ (z >> 31);
	}
	uint64_t below(uint64_t n) { return n ? next() % n : 0; }
	int64_t range(int64_t lo, int64_t hi) { return lo + (int64_t)below((uint64_t)(hi - lo + 1)); } // inclusive
	bool chance(double p) { return (next() >> 11) * (1.0 / 9007199254740992.0) < p; }
	Rng split() { return Rng(next() ^ 0xD1B54A32D192ED03ull); }
	template<typename T> const T& pick(const std::vector<T>& v) { return v[below(v.size())]; }
};

inline uint64_t mix64(uint64_t a, uint64_t b)
{
	Rng r(a ^ (b * 0x9E3779B97F4A7C15ull + 0x632BE59BD9B4E019ull));
	return r.next();
}

enum Policy { POL_RANDOM = 0, POL_PCT = 1, POL_RUNTOBLOCK = 2 };

struct Config
{
	uint64_t sched_seed = 1;
	int64_t start_ns = 1767571200ll * 1000000000ll; // Monday 2026-01-05 00:00:00 UTC
	double p_preempt = 0.2;
	int policy = POL_RANDOM;
	int pct_depth = 3;
	uint64_t step_budget = 3000000;
	bool keep_trace = false;
};

// Create the kernel's thread-exit key. Call once, outside any world, AFTER every library whose thread-specific-data
// destructors must run under the scheduler has created its own key (glibc runs destructors in key order): a finishing
// task then hands the baton on only from this key's destructor, i.e. after those destructors have run.
void init_thread_exit_key();

// world lifecycle (called by the driver task = the calling thread)
void begin(const Config& cfg);
void end();                         // all other tasks must be DONE (else they are abandoned and reported)
bool active();                      // inside a simulated run and on a simulated task
bool in_world();                    // a world exists (any thread)
int  task_id();                     // 0 = driver, -1 = not a task
int  live_tasks();                  // tasks not DONE, excluding the driver

// clock
int64_t now_ns();
void advance(int64_t dt_ns);        // driver (or any task) sleeps in simulated time
void settle();                      // wait until nobody else can run at the current instant
// like settle(), but pred is evaluated (on whichever task is running) at every scheduling point; as soon as it holds the
// caller is resumed at once, in the middle of whatever the other tasks were doing. Returns true if pred fired, false
// if quiescence was reached first (max_ns = 0) or max_ns of simulated time passed (max_ns > 0: the caller sleeps instead
// of waiting for quiescence). pred must not draw from the PRNG or read a clock.
bool settle_watch(const std::function<bool()>& pred, int64_t max_ns = 0);
bool settle_until(const std::function<bool()>& pred, int64_t max_ns, int64_t step_ns = 1000000); // settle/advance until pred

// scheduling points
void yield_point(int site = 0);     // may-switch decision point
void must_yield();                  // polling style: not eligible again until someone else progressed
void block_on(const void *obj, int64_t timeout_ns = -1);
bool timed_out();                   // did the last block_on end by timeout
void wake_all(const void *obj);
void at(int64_t t_ns, std::function<void()> fn); // event callback, runs on whichever task advances the clock
void stall_task(int id, uint64_t steps);         // make a task ineligible for a number of scheduler steps

// trace / stats
void trace(const std::string& s);   // hashed always, kept if keep_trace
uint64_t trace_hash();
uint64_t decision_hash();
uint64_t steps();
uint64_t preemptions();
const std::vector<std::string>& trace_log();
void count(const char *key, int64_t n = 1);       // per-run counters (fault kinds fired, probes)
std::map<std::string, int64_t>& counters();

// abnormal ends: the kernel cannot unwind parked threads, so a hung or deadlocked world ends the process
// after calling this hook (the driver prints its result line there).
extern void (*on_fatal)(const char *kind);

// queue hook sites flagged must-switch (retry loops)
void set_must_switch_sites(const std::vector<int>& sites);
// observer for hook points (C30 oracle)
extern void (*point_observer)(int site, unsigned long val, int task);

} // namespace sim
