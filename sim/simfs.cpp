// see simfs.hpp. Link with -Wl,--wrap=open,--wrap=read,--wrap=write,--wrap=lseek,--wrap=close,--wrap=access,
// --wrap=rename,--wrap=mkdir,--wrap=unlink (+ the 64-bit aliases)
#include "simfs.hpp"
#include "kernel.hpp"
#include <fcntl.h>
#include <unistd.h>
#include <sys/stat.h>
#include <errno.h>
#include <stdarg.h>
#include <cstring>
#include <memory>

extern "C" {
int __real_open(const char *, int, ...);
ssize_t __real_read(int, void *, size_t);
ssize_t __real_write(int, const void *, size_t);
off_t __real_lseek(int, off_t, int);
int __real_close(int);
int __real_access(const char *, int);
int __real_rename(const char *, const char *);
int __real_mkdir(const char *, mode_t);
int __real_unlink(const char *);
int __real_ftruncate(int, off_t);
int __real_fsync(int);
int __real_fdatasync(int);
ssize_t __real_pread(int, void *, size_t, off_t);
ssize_t __real_pwrite(int, const void *, size_t, off_t);
int __real_fstat(int, struct stat *);
int __real_stat(const char *, struct stat *);
}

namespace simfs {

struct File { std::string data; };
struct FD { std::shared_ptr<File> f; off_t off = 0; int flags = 0; };

static std::map<std::string, std::shared_ptr<File>> g_files;
static std::map<int, FD> g_fds;
static int g_nextfd = 1000000;
static uint64_t g_calls = 0;
static std::vector<Call> g_log;
static Disk g_view;
std::function<void(uint64_t, const char *)> after_call;
bool record_calls = false;

bool is_sim_path(const char *p) { return p && strncmp(p, "/simfs/", 7) == 0; }
uint64_t syscalls() { return g_calls; }
std::vector<Call>& call_log() { return g_log; }

void reset() { g_files.clear(); g_fds.clear(); g_calls = 0; g_log.clear(); after_call = nullptr; g_nextfd = 1000000; }
Disk snapshot() { Disk d; for (auto& kv : g_files) d[kv.first] = kv.second->data; return d; }
Disk& disk() { g_view = snapshot(); return g_view; }
void restore(const Disk& d)
{
	g_files.clear(); g_fds.clear();
	for (auto& kv : d) { auto f = std::make_shared<File>(); f->data = kv.second; g_files[kv.first] = f; }
}

static void done(const char *name, const char *p1, const char *p2, long ret)
{
	++g_calls;
	if (record_calls) g_log.push_back(Call{name, p1 ? p1 : "", p2 ? p2 : "", ret});
	if (after_call) after_call(g_calls, name);
	sim::yield_point();
}
static bool dir_exists(const std::string& p)
{
	std::string pre = p; if (pre.empty() || pre.back() != '/') pre += '/';
	if (pre == "/simfs/") return true;
	for (auto& kv : g_files) if (kv.first.compare(0, pre.size(), pre) == 0) return true;
	return false;
}

} // namespace simfs

using namespace simfs;

extern "C" {

int __wrap_open(const char *path, int flags, ...)
{
	mode_t mode = 0;
	if (flags & O_CREAT) { va_list ap; va_start(ap, flags); mode = va_arg(ap, mode_t); va_end(ap); }
	if (!is_sim_path(path))
	{
		int r = __real_open(path, flags, mode);
		if (record_calls) g_log.push_back(Call{"open", path ? path : "", "", r});
		return r;
	}
	auto it = g_files.find(path);
	if (it == g_files.end())
	{
		if (!(flags & O_CREAT)) { errno = ENOENT; done("open", path, 0, -1); return -1; }
		it = g_files.emplace(path, std::make_shared<File>()).first;
	}
	else if (flags & O_TRUNC) it->second->data.clear();
	int fd = g_nextfd++;
	g_fds[fd] = FD{it->second, 0, flags};
	done("open", path, 0, fd);
	return fd;
}
int __wrap_open64(const char *path, int flags, ...)
{
	mode_t mode = 0;
	if (flags & O_CREAT) { va_list ap; va_start(ap, flags); mode = va_arg(ap, mode_t); va_end(ap); }
	return __wrap_open(path, flags, mode);
}

ssize_t __wrap_read(int fd, void *buf, size_t n)
{
	auto it = g_fds.find(fd);
	if (it == g_fds.end()) return __real_read(fd, buf, n);
	FD& d = it->second;
	size_t avail = d.off < (off_t)d.f->data.size() ? d.f->data.size() - d.off : 0;
	size_t k = n < avail ? n : avail;
	if (k) memcpy(buf, d.f->data.data() + d.off, k);
	d.off += k;
	done("read", 0, 0, (long)k);
	return (ssize_t)k;
}

ssize_t __wrap_write(int fd, const void *buf, size_t n)
{
	auto it = g_fds.find(fd);
	if (it == g_fds.end()) return __real_write(fd, buf, n);
	FD& d = it->second;
	if (d.flags & O_APPEND) d.off = d.f->data.size();
	if ((size_t)d.off > d.f->data.size()) d.f->data.resize(d.off, '\0');
	if (d.off + n > d.f->data.size()) d.f->data.resize(d.off + n);
	if (n) memcpy(&d.f->data[d.off], buf, n);
	d.off += n;
	done("write", 0, 0, (long)n);
	return (ssize_t)n;
}

off_t __wrap_lseek(int fd, off_t off, int whence)
{
	auto it = g_fds.find(fd);
	if (it == g_fds.end()) return __real_lseek(fd, off, whence);
	FD& d = it->second;
	off_t base = whence == SEEK_SET ? 0 : whence == SEEK_CUR ? d.off : (off_t)d.f->data.size();
	if (base + off < 0) { errno = EINVAL; done("lseek", 0, 0, -1); return -1; }
	d.off = base + off;
	done("lseek", 0, 0, (long)d.off);
	return d.off;
}
off_t __wrap_lseek64(int fd, off_t off, int whence) { return __wrap_lseek(fd, off, whence); }

int __wrap_close(int fd)
{
	auto it = g_fds.find(fd);
	if (it == g_fds.end())
	{
		if (fd >= 1000000 || fd < 0) { errno = EBADF; return -1; } // stale simulated fd, or fix8 closing -1
		return __real_close(fd);
	}
	g_fds.erase(it);
	done("close", 0, 0, 0);
	return 0;
}

int __wrap_access(const char *path, int mode)
{
	if (!is_sim_path(path))
	{
		int r = __real_access(path, mode);
		if (record_calls) g_log.push_back(Call{"access", path ? path : "", "", r});
		return r;
	}
	int r = (g_files.count(path) || dir_exists(path)) ? 0 : -1;
	if (r) errno = ENOENT;
	done("access", path, 0, r);
	return r;
}

int __wrap_rename(const char *from, const char *to)
{
	if (!is_sim_path(from) || !is_sim_path(to))
	{
		int r = __real_rename(from, to);
		if (record_calls) g_log.push_back(Call{"rename", from ? from : "", to ? to : "", r});
		return r;
	}
	auto it = g_files.find(from);
	if (it == g_files.end()) { errno = ENOENT; done("rename", from, to, -1); return -1; }
	auto f = it->second;
	g_files.erase(it);
	g_files[to] = f;
	done("rename", from, to, 0);
	return 0;
}

int __wrap_mkdir(const char *path, mode_t mode)
{
	if (!is_sim_path(path))
	{
		int r = __real_mkdir(path, mode);
		if (record_calls) g_log.push_back(Call{"mkdir", path ? path : "", "", r});
		return r;
	}
	done("mkdir", path, 0, 0);
	return 0;
}

int __wrap_unlink(const char *path)
{
	if (!is_sim_path(path))
	{
		int r = __real_unlink(path);
		if (record_calls) g_log.push_back(Call{"unlink", path ? path : "", "", r});
		return r;
	}
	int r = g_files.erase(path) ? 0 : -1;
	if (r) errno = ENOENT;
	done("unlink", path, 0, r);
	return r;
}


int __wrap_ftruncate(int fd, off_t len)
{
	auto it = g_fds.find(fd);
	if (it == g_fds.end()) return __real_ftruncate(fd, len);
	if (len < 0) { errno = EINVAL; done("ftruncate", 0, 0, -1); return -1; }
	it->second.f->data.resize((size_t)len, '\0');
	done("ftruncate", 0, 0, 0);
	return 0;
}
int __wrap_ftruncate64(int fd, off_t len) { return __wrap_ftruncate(fd, len); }

// simulated files have no volatile cache (a crash is a snapshot taken after a completed call), so syncing is a no-op
int __wrap_fsync(int fd)
{
	if (g_fds.find(fd) == g_fds.end()) return __real_fsync(fd);
	done("fsync", 0, 0, 0);
	return 0;
}
int __wrap_fdatasync(int fd)
{
	if (g_fds.find(fd) == g_fds.end()) return __real_fdatasync(fd);
	done("fdatasync", 0, 0, 0);
	return 0;
}

ssize_t __wrap_pread(int fd, void *buf, size_t n, off_t off)
{
	auto it = g_fds.find(fd);
	if (it == g_fds.end()) return __real_pread(fd, buf, n, off);
	FD& d = it->second;
	if (off < 0) { errno = EINVAL; done("pread", 0, 0, -1); return -1; }
	size_t avail = off < (off_t)d.f->data.size() ? d.f->data.size() - off : 0;
	size_t k = n < avail ? n : avail;
	if (k) memcpy(buf, d.f->data.data() + off, k);
	done("pread", 0, 0, (long)k);
	return (ssize_t)k;
}
ssize_t __wrap_pread64(int fd, void *buf, size_t n, off_t off) { return __wrap_pread(fd, buf, n, off); }

ssize_t __wrap_pwrite(int fd, const void *buf, size_t n, off_t off)
{
	auto it = g_fds.find(fd);
	if (it == g_fds.end()) return __real_pwrite(fd, buf, n, off);
	FD& d = it->second;
	if (off < 0) { errno = EINVAL; done("pwrite", 0, 0, -1); return -1; }
	if ((size_t)off + n > d.f->data.size()) d.f->data.resize((size_t)off + n, '\0');
	if (n) memcpy(&d.f->data[off], buf, n);
	done("pwrite", 0, 0, (long)n);
	return (ssize_t)n;
}
ssize_t __wrap_pwrite64(int fd, const void *buf, size_t n, off_t off) { return __wrap_pwrite(fd, buf, n, off); }

static void fill_stat(struct stat *st, size_t size, bool dir)
{
	memset(st, 0, sizeof *st);
	st->st_mode = dir ? (S_IFDIR | 0755) : (S_IFREG | 0644);
	st->st_nlink = 1; st->st_size = (off_t)size; st->st_blksize = 4096; st->st_blocks = (blkcnt_t)((size + 511) / 512);
}
int __wrap_fstat(int fd, struct stat *st)
{
	auto it = g_fds.find(fd);
	if (it == g_fds.end()) return __real_fstat(fd, st);
	fill_stat(st, it->second.f->data.size(), false);
	done("fstat", 0, 0, 0);
	return 0;
}
int __wrap_fstat64(int fd, struct stat *st) { return __wrap_fstat(fd, st); }
int __wrap_stat(const char *path, struct stat *st)
{
	if (!is_sim_path(path)) return __real_stat(path, st);
	auto it = g_files.find(path);
	if (it != g_files.end()) fill_stat(st, it->second->data.size(), false);
	else if (dir_exists(path)) fill_stat(st, 0, true);
	else { errno = ENOENT; done("stat", path, 0, -1); return -1; }
	done("stat", path, 0, 0);
	return 0;
}
int __wrap_stat64(const char *path, struct stat *st) { return __wrap_stat(path, st); }

}
