// In-memory file layer behind open/read/write/lseek/close/access/rename/mkdir/unlink for paths under /simfs/.
// A completed call is durable (process-crash model: the simulated disk is the page cache).
#pragma once
#include <cstdint>
#include <functional>
#include <map>
#include <string>
#include <vector>

namespace simfs {

struct Call { std::string name, p1, p2; long ret; };

typedef std::map<std::string, std::string> Disk;   // path -> contents

void reset();                       // empty disk, close all simulated fds, clear logs and counters
Disk& disk();                       // live disk (files currently reachable by path)
Disk snapshot();                    // deep copy of the live disk
void restore(const Disk& d);        // replace the disk (all simulated fds become stale and are closed)
uint64_t syscalls();                // number of completed simulated calls since reset()
// hook run right after each completed call (index = syscalls() after the call, name of the call)
extern std::function<void(uint64_t, const char *)> after_call;
// when true, every call (also pass-through ones to the real fs) is appended to call_log()
extern bool record_calls;
std::vector<Call>& call_log();
bool is_sim_path(const char *p);

} // namespace simfs
